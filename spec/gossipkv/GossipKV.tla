------------------------------ MODULE GossipKV ------------------------------
(***************************************************************************)
(* C04 / C06 - the gossiping memberlist KV (kv/memberlist), 1-2 keys.      *)
(*                                                                         *)
(* Structured like memberlist_client.go: one action per critical section   *)
(* the harness can separate (the harness IS the network):                  *)
(*   Tick                       virtual clock, 1 s                         *)
(*   Cas(n,f)                   KV.CAS -> trySingleCas -> mergeValueForKey *)
(*                              (localCAS) -> notifyWatchers ->            *)
(*                              broadcastNewValue(localBroadcasts)         *)
(*   Gossip(n)                  GetBroadcasts (local queue first)          *)
(*   Deliver(p,n)               NotifyMsg: with the worker gate of n open  *)
(*                              the per-key worker runs to completion      *)
(*                              (processValueUpdate -> mergeValueForKey -> *)
(*                              notify -> re-broadcast of the change       *)
(*                              only); with the gate closed the update is  *)
(*                              taken by the worker / buffered in its      *)
(*                              channel / dropped when the channel is full *)
(*   Work(n)                    the blocked worker takes one step: the     *)
(*                              merge (store write + notification), or the *)
(*                              QueueBroadcast of an earlier merge         *)
(*   GateClose/GateOpen         harness gates inside the codec             *)
(*   DeliverGarbage(p,n,k)      NotifyMsg of a truncated / bit-flipped /   *)
(*                              unknown-codec / empty-key packet           *)
(*   PushPull(a,b,junk)         LocalState both sides, MergeRemoteState    *)
(*                              both sides (junk: an unknown-codec pair is *)
(*                              put in front of each buffer)               *)
(*   DeleteKey(n) / Cleanup(n)  KV.Delete (key-level tombstone: Deleted    *)
(*                              flag + UpdateTime) / cleanupObsoleteEntries*)
(*   WatcherArm/WatcherRelease  a WatchKey callback that blocks / returns  *)
(*   Partition/Heal/Restart     adversary                                  *)
(* `sent` is the set of all packets ever taken out of any node: never      *)
(* shrinking (ConsumeNet = FALSE), so any earlier message can reach any    *)
(* node at any later time, any number of times, in any order.              *)
(*                                                                         *)
(* Value domain: a map id -> (timestamp, state) with a tombstone state,    *)
(* merged entry-wise: newest timestamp wins, the tombstone wins ties, a    *)
(* local CAS turns entries missing from the new value into tombstones      *)
(* stamped `clock`.  The harness instantiates it twice: ring.Desc          *)
(* (instances, LEFT; every instance id has its own tokens, so there are no *)
(* token conflicts) and ring.PartitionRingDesc (partitions and owners,     *)
(* PartitionDeleted / OwnerDeleted), whose Merge functions coincide on     *)
(* this domain.                                                            *)
(***************************************************************************)
EXTENDS Integers, FiniteSets, Sequences, TLC, Json

CONSTANTS
  N,              \* nodes 1..N
  NI,             \* entry ids 1..NI
  NK,             \* keys 1..NK sharing a node's two broadcast queues (each key has its own store cell, worker, watchers)
  MaxClock,       \* clock runs 0..MaxClock
  Retention,      \* LeftIngestersTimeout in seconds; 0 = tombstones are never collected
  T,              \* transmissions per queued broadcast (RetransmitMult * ceil(log10(N+1)))
  MaxCas,         \* bound on CAS calls
  MaxFaults,      \* bound on adversary actions (garbage, junk push/pull, partition, restart, duplicates)
  LiveStates,     \* states a live entry may be set to, e.g. {"ACTIVE","LEAVING"}
  WatchNodes,     \* nodes with a registered WatchKey watcher
  HoldNodes,      \* watchers whose callback may block (subset of WatchNodes)
  AllowRestart, AllowGarbage, AllowPartition, AllowJunkPP,
  GateNodes,      \* nodes whose per-key worker can be gated (Receive and Work become separate steps)
  InboxCap,       \* capacity of the per-key worker channel (ProcessedMessagesQueueSize)
  VersionTest,    \* TRUE: Invalidates compares versions (the code); FALSE: negative control
  KeyTest,        \* TRUE: Invalidates compares keys (the code); FALSE: negative control
  MaxDel,         \* bound on KV.Delete calls; 0 = key deletion not exercised
  ObsoleteTimeout,\* ObsoleteEntriesTimeout in seconds
  LockKeys,       \* keys that hold a partition ring whose partitions (odd entry ids) carry a state-change lock: a second,
                  \* independently versioned component (lk, lts) of the entry; {} = no locks anywhere (lk = FALSE, lts = -1)
  ConsumeNet,     \* TRUE: a delivered packet leaves the network unless the adversary pays for a duplicate
  Ideal,          \* TRUE: what the property demands (= the code since the fix of finding F7); FALSE: the code before that fix
  Ghost,          \* maintain the ghost variables inval / fwd
  Record,         \* maintain hist (behaviour generation)
  Quiesce,        \* run phase is followed by the deterministic quiescence suffix
  RunDepth,       \* length of the run phase when Quiesce
  QRounds         \* all-pairs push/pull rounds in the suffix

ASSUME HoldNodes \subseteq WatchNodes /\ WatchNodes \subseteq 1..N /\ GateNodes \subseteq 1..N

Node == 1..N
Key  == 1..NK
Unit == Node \X Key       \* a key on a node: <<n, k>>
Nd(u) == u[1]
Ky(u) == u[2]
UnitsOf(n) == {<<n, k>> : k \in Key}
Inst == 1..NI
LEFT == "LEFT"
Absent == [ts |-> -1, st |-> "ABSENT", lk |-> FALSE, lts |-> -1]
Locks  == LockKeys # {}
Entry  == [ts : 0..MaxClock, st : LiveStates \cup {LEFT},
           lk : IF Locks THEN BOOLEAN ELSE {FALSE}, lts : IF Locks THEN -1..MaxClock ELSE {-1}]
New(t, s) == [ts |-> t, st |-> s, lk |-> FALSE, lts |-> -1]
Desc   == [Inst -> Entry \cup {Absent}]
Empty  == TLCEval([i \in Inst |-> Absent])
Ids(d) == {i \in Inst : d[i] # Absent}
Strip(d) == TLCEval([i \in Inst |-> IF d[i].st = LEFT THEN Absent ELSE d[i]])
NoLeft(d) == \A i \in Inst : d[i].st # LEFT

(* a message (KeyValuePair): the change, the key's Deleted flag and UpdateTime (-1 = zero time) *)
Msg(k, c, d, u) == [key |-> k, chg |-> c, del |-> d, upd |-> u]
Plain(k, c) == Msg(k, c, FALSE, -1)

VARIABLES
  clock,
  store,     \* store[u] = [val : Desc (tombstones included), ver, del, upd]; ver = 0 <=> key not in the store of the node
  queueL,    \* queueL[n] : set of [key, chg, del, upd, ver, left : 1..T]   (localBroadcasts, shared by all keys)
  queueG,    \* queueG[n] : same                                             (gossipBroadcasts)
  watch,     \* watch[u] = [called, last, armed, held, pending]   the WatchKey watcher of the key
  pw,        \* pw[u] = [called, last]   what an un-gated WatchPrefix("") watcher last saw for the key
  gate,      \* gate[u] : the per-key worker blocks at its next Decode / Encode
  wk,        \* wk[u] = [st : idle | dec | enc, m : message held, ver]   the per-key worker
  inbox,     \* inbox[u] : sequence of messages in the worker channel
  sent,      \* packets (messages) taken out of the nodes by GetBroadcasts
  cut,       \* isolated nodes
  ncas, nfault, ndel,
  phase, qidx,
  inval,     \* ghost: broadcast o was invalidated by b in the last step
  fwd,       \* ghost: [u, chg, local] - changes produced by the merges of the last step
  written,   \* <<k, i, entry>> ever produced by a CAS
  hist       \* behaviour so far (Record)

nodev == <<store, queueL, queueG, watch, pw>>
wrk   == <<gate, wk, inbox>>
net   == <<sent, cut>>
bud   == <<ncas, nfault, ndel>>
ctl   == <<phase, qidx>>
vars  == <<clock, nodev, wrk, net, bud, ctl, inval, fwd, written, hist>>

(* The exhaustive configurations identify states that differ only in the ghosts inval/fwd and in hist; and, *)
(* when neither worker gates nor key deletion are exercised, in version numbers: a version is then only     *)
(* ever compared by Invalidates(b, o) with b the broadcast being queued, whose version is larger than every *)
(* queued one of its key (VersionCountsChanges), so versions do not influence any other variable.           *)
NoVer(q) == {[key |-> b.key, chg |-> b.chg, left |-> b.left] : b \in q}
view == IF GateNodes = {} /\ MaxDel = 0
        THEN <<clock, [u \in Unit |-> <<store[u].val, store[u].ver > 0>>], [n \in Node |-> <<NoVer(queueL[n]), NoVer(queueG[n])>>],
               watch, pw, sent, cut, bud, ctl, written>>
        ELSE <<clock, nodev, wrk, net, bud, ctl, written>>

-----------------------------------------------------------------------------
(* TLC re-evaluates LET-bound expressions at every use; values that are used more than once are *)
(* therefore bound through a singleton set (evaluated once).                                     *)
Only(S) == CHOOSE x \in S : TRUE

(* Desc.mergeWithTime (ring.Desc without token conflicts; PartitionRingDesc partitions / owners): *)
(* per entry [r = resulting entry, u = updated]                                                   *)
(* The state-change lock of a partition (PartitionDesc.StateChangeLocked / ...LockedTimestamp) is a second      *)
(* component of the entry with its own timestamp: the newer state and the newer lock are taken independently, *)
(* so a delayed message with a newer lock but an older state changes the lock only - never the tombstone.     *)
EntryMerge(me, ot, cas, now) ==
  IF ot # Absent /\ me = Absent
  THEN [r |-> ot, u |-> TRUE]
  ELSE IF ot # Absent
  THEN LET stw == \/ ot.ts > me.ts
                  \/ ot.ts = me.ts /\ me.st # LEFT /\ ot.st = LEFT
           lkw == ot.lts > me.lts
       IN [r |-> [ts |-> IF stw THEN ot.ts ELSE me.ts, st |-> IF stw THEN ot.st ELSE me.st,
                  lk |-> IF lkw THEN ot.lk ELSE me.lk, lts |-> IF lkw THEN ot.lts ELSE me.lts],
           u |-> stw \/ lkw]
  ELSE IF cas /\ me # Absent /\ me.st # LEFT
       THEN [r |-> [me EXCEPT !.ts = now, !.st = LEFT], u |-> TRUE]      \* missing from a local CAS result: tombstone stamped now (the lock stays)
       ELSE [r |-> me, u |-> FALSE]
Merge(mine, other, cas, now) ==
  Only({ [result |-> TLCEval([i \in Inst |-> pe[i].r]),
          change |-> TLCEval([i \in Inst |-> IF pe[i].u THEN pe[i].r ELSE Absent])]
         : pe \in {TLCEval([i \in Inst |-> EntryMerge(mine[i], other[i], cas, now)])} })

(* RemoveTombstones(now - Retention): strictly older than the limit *)
Expired(e, now) == Retention > 0 /\ e.st = LEFT /\ e.ts < now - Retention
GCd(d, now) == TLCEval([i \in Inst |-> IF Expired(d[i], now) THEN Absent ELSE d[i]])

C0 == [val |-> Empty, ver |-> 0, del |-> FALSE, upd |-> -1]

(* KV.mergeValueForKey.  s: store cell, inc: incoming message, m: Merge outcome, r/c: result/change after *)
(* tombstone collection.  Returns the new cell, the change to broadcast (bc: whether there is one), whether  *)
(* watchers are notified, and a tag for the paths on which everything that came in was an expired tombstone. *)
MVBody(s, inc, m, r, c) ==
  LET no   == [st |-> s, chg |-> Empty, bc |-> FALSE, changed |-> FALSE, silent |-> "-"]
      flip == inc.del /\ inc.upd # -1 /\ inc.upd > s.upd      \* an incoming Deleted flag newer than ours
      nd   == s.del \/ flip
      nu   == IF flip THEN inc.upd ELSE s.upd
      cell(v) == [val |-> v, ver |-> s.ver + 1, del |-> nd, upd |-> nu]
      tag  == IF Strip(r) # Strip(s.val) THEN "silentgc" ELSE "quietgc"
  IN IF s.ver = 0 /\ inc.del THEN no                          \* a deleted key we do not have is not revived
     ELSE IF Ids(m.change) = {} /\ nd = s.del THEN no
     ELSE IF Ids(m.change) = {} \/ (Ids(c) = {} /\ nd # s.del)
          THEN \* only the Deleted flag changes (or what came with it was collected): the whole value is the change
               [st |-> cell(r), chg |-> r, bc |-> TRUE, changed |-> TRUE, silent |-> "-"]
     ELSE IF Ids(c) # {}
          THEN [st |-> cell(r), chg |-> c, bc |-> TRUE, changed |-> TRUE, silent |-> "-"]
     ELSE \* everything that came in was an expired tombstone: Merge has already applied it to the stored value in
          \* place and RemoveTombstones has collected it again (together with every other expired tombstone)
          IF Ideal
          THEN \* new version, watchers notified, nothing to gossip
               [st |-> cell(r), chg |-> Empty, bc |-> FALSE, changed |-> TRUE, silent |-> tag]
          ELSE \* finding F7, the code before its fix: "no change" is returned although the stored value was edited in
               \* place - a live entry can vanish from readers without version bump or notification
               IF s.ver = 0 THEN no
               ELSE [st |-> [s EXCEPT !.val = r], chg |-> Empty, bc |-> FALSE, changed |-> FALSE, silent |-> tag]
MV(s, inc, cas, now) ==
  Only({ Only({ MVBody(s, inc, m, rc[1], rc[2]) : rc \in {<<GCd(m.result, now), GCd(m.change, now)>>} })
         : m \in {IF s.ver = 0 THEN [result |-> inc.chg, change |-> inc.chg] ELSE Merge(s.val, inc.chg, cas, now)} })

ReadOf(s) == Strip(s.val)          \* KV.get: clone + RemoveTombstones(zero time); nil and empty coincide;
Read(u)   == ReadOf(store[u])      \* the Deleted flag does NOT hide the value (observation O2)

(* ringBroadcast.Invalidates / TransmitLimitedQueue.QueueBroadcast: same key, content superset, not older *)
Invalidates(b, o) == /\ (~KeyTest \/ b.key = o.key)
                     /\ Ids(o.chg) \subseteq Ids(b.chg)
                     /\ (~VersionTest \/ b.ver >= o.ver)
(* bs: the broadcasts queued in one step (at most one per key) *)
QAdd(q, bs)  == {o \in q : \A b \in bs : ~Invalidates(b, o)} \cup bs
MsgOf(b) == Msg(b.key, b.chg, b.del, b.upd)
BC(k, chg, cell) == [key |-> k, chg |-> chg, del |-> cell.del, upd |-> cell.upd, ver |-> cell.ver, left |-> T]

(* notifyWatchersSync + the WatchKey loop with its capacity-1 channel *)
Notify(w, rd) == IF w.held THEN [w EXCEPT !.pending = TRUE]
                 ELSE IF w.armed THEN [w EXCEPT !.called = TRUE, !.last = rd, !.armed = FALSE, !.held = TRUE]
                 ELSE [w EXCEPT !.called = TRUE, !.last = rd]
W0  == [called |-> FALSE, last |-> Empty, armed |-> FALSE, held |-> FALSE, pending |-> FALSE]
PW0 == [called |-> FALSE, last |-> Empty]
WK0 == [st |-> "idle", m |-> Plain(0, Empty), ver |-> 0]

(* the functions handed to CAS *)
(* "lock" = UpdatePartitionStateChangeLock(i, ~locked): toggles the lock of a partition (odd id of a key in LockKeys) *)
Fn == [op : {"hb", "rm"}, i : Inst, s : {"-"}] \cup [op : {"set"}, i : Inst, s : LiveStates]
      \cup [op : {"lock"}, i : {j \in Inst : Locks /\ j % 2 = 1}, s : {"-"}]
Lockable(k, f) == f.op # "lock" \/ (k \in LockKeys /\ f.i % 2 = 1)
Apply(f, in, now) ==
  CASE f.op = "hb"  -> [ok |-> TRUE, d |-> [in EXCEPT ![f.i] = IF in[f.i] = Absent THEN New(now, "ACTIVE")
                                                                 ELSE [in[f.i] EXCEPT !.ts = now]]]
    [] f.op = "set" -> IF in[f.i] = Absent THEN [ok |-> FALSE, d |-> in]
                       ELSE [ok |-> TRUE, d |-> [in EXCEPT ![f.i] = [in[f.i] EXCEPT !.ts = now, !.st = f.s]]]
    [] f.op = "rm"  -> [ok |-> TRUE, d |-> [in EXCEPT ![f.i] = Absent]]
    [] f.op = "lock" -> IF in[f.i] = Absent THEN [ok |-> FALSE, d |-> in]
                        ELSE [ok |-> TRUE, d |-> [in EXCEPT ![f.i] = [in[f.i] EXCEPT !.lk = ~in[f.i].lk, !.lts = now]]]

-----------------------------------------------------------------------------
(* effect of one merge result r on unit u when merge, notification and QueueBroadcast happen in one step: *)
(* new cell, watchers, the broadcast to queue (bs: empty or one element)                                  *)
After(u, r, local) ==
  TLCEval([st |-> r.st,
      w   |-> IF r.changed /\ Nd(u) \in WatchNodes THEN Notify(watch[u], ReadOf(r.st)) ELSE watch[u],
      pw  |-> IF r.changed THEN [called |-> TRUE, last |-> ReadOf(r.st)] ELSE pw[u],
      bs  |-> IF r.bc THEN {BC(Ky(u), r.chg, r.st)} ELSE {},
      fwd |-> IF r.bc THEN {[u |-> u, chg |-> r.chg, local |-> local]} ELSE {}])
Kills(q, bs) == {[o |-> x[1].chg, ok |-> x[1].key, od |-> x[1].del, ou |-> x[1].upd, b |-> x[2].chg, bk |-> x[2].key] :
                   x \in {y \in q \X bs : Invalidates(y[2], y[1])}}

Proj(st, ql, qg, w, p, g, k, ib, clk) ==
  [clock |-> clk,
   nodes |-> [n \in Node |->
      [ql |-> Cardinality(ql[n]), qg |-> Cardinality(qg[n]),
       keys |-> [kk \in Key |-> LET u == <<n, kk>> IN
                   [val |-> st[u].val, ver |-> st[u].ver, del |-> st[u].del, upd |-> st[u].upd, read |-> ReadOf(st[u]),
                    called |-> w[u].called, last |-> w[u].last, held |-> w[u].held, pending |-> w[u].pending,
                    pcalled |-> p[u].called, plast |-> p[u].last,
                    gate |-> g[u], wk |-> k[u].st, ib |-> Len(ib[u])]]]]]

R0 == [a |-> "", n |-> 0, m |-> 0, key |-> 0, f |-> [op |-> "-", i |-> 0, s |-> "-"], p |-> Empty, pd |-> FALSE, pu |-> -1, k |-> "-",
       out |-> {}, res |-> "-", note |-> "-"]
WithMsg(rec, msg) == [rec EXCEPT !.key = msg.key, !.p = msg.chg, !.pd = msg.del, !.pu = msg.upd]
AtUnit(rec, u) == [rec EXCEPT !.n = Nd(u), !.key = Ky(u)]

Log(rec) == hist' = IF Record
                    THEN Append(hist, rec @@ [post |-> Proj(store', queueL', queueG', watch', pw', gate', wk', inbox', clock')])
                    ELSE hist
GhostStep(k, fw) == /\ inval' = IF Ghost THEN k ELSE {}
                    /\ fwd'   = IF Ghost THEN fw ELSE {}
NoGhost == GhostStep({}, {})

-----------------------------------------------------------------------------
Init ==
  /\ clock = 0
  /\ store  = TLCEval([u \in Unit |-> C0])
  /\ queueL = TLCEval([n \in Node |-> {}])
  /\ queueG = TLCEval([n \in Node |-> {}])
  /\ watch  = TLCEval([u \in Unit |-> W0])
  /\ pw     = TLCEval([u \in Unit |-> PW0])
  /\ gate   = TLCEval([u \in Unit |-> FALSE])
  /\ wk     = TLCEval([u \in Unit |-> WK0])
  /\ inbox  = TLCEval([u \in Unit |-> <<>>])
  /\ sent = {}
  /\ cut = {}
  /\ ncas = 0 /\ nfault = 0 /\ ndel = 0
  /\ phase = "run" /\ qidx = 1
  /\ inval = {} /\ fwd = {} /\ written = {}
  /\ hist = <<>>

Tick ==
  /\ clock < MaxClock
  /\ clock' = clock + 1
  /\ UNCHANGED <<nodev, wrk, net, bud, ctl, written>>
  /\ NoGhost
  /\ Log([R0 EXCEPT !.a = "Tick"])

(* Workload proviso (the one of C03): an entry never gets two different live contents with the same  *)
(* timestamp - in dskit an entry is written by its own lifecycler only, and a second write within the *)
(* same second is "no change".  Removals are exempt (the tombstone wins ties).                        *)
(* The same for the lock component: one lock content per (partition, second).                          *)
OneContentPerSecond(k, chg) ==
  \A i \in Ids(chg) : \A w \in written :
     (w[1] = k /\ w[2] = i) =>
        /\ (w[3].ts = chg[i].ts /\ w[3].st # LEFT /\ chg[i].st # LEFT) => w[3].st = chg[i].st
        /\ (w[3].lts = chg[i].lts) => w[3].lk = chg[i].lk

CasN(u, f, note) ==
  /\ ncas < MaxCas
  /\ Lockable(Ky(u), f)
  /\ ncas' = ncas + 1
  /\ UNCHANGED <<nfault, ndel>>
  /\ \E ap \in {Apply(f, Read(u), clock)} :
     \E r \in {MV(store[u], Plain(Ky(u), ap.d), store[u].ver > 0, clock)} :
     \E x \in {After(u, r, TRUE)} :
     LET res == IF ~ap.ok THEN "nil" ELSE IF r.changed THEN "ok" ELSE "nochange"
         n   == Nd(u)
     IN /\ OneContentPerSecond(Ky(u), r.chg)
        /\ IF ap.ok /\ r.changed
           THEN /\ store'  = [store  EXCEPT ![u] = x.st]
                /\ watch'  = [watch  EXCEPT ![u] = x.w]
                /\ pw'     = [pw     EXCEPT ![u] = x.pw]
                /\ queueL' = [queueL EXCEPT ![n] = QAdd(queueL[n], x.bs)]
                /\ UNCHANGED queueG
                /\ GhostStep(Kills(queueL[n], x.bs), x.fwd)
                /\ written' = written \cup {<<Ky(u), i, r.chg[i]>> : i \in Ids(r.chg)}
                /\ UNCHANGED <<clock, wrk, net, ctl>>
                /\ Log(WithMsg([R0 EXCEPT !.a = "Cas", !.n = n, !.f = f, !.res = res, !.note = note], MsgOf(BC(Ky(u), r.chg, r.st))))
           ELSE \* f returned nil, or Merge saw no change: CAS sleeps 1 s and retries; the caller gives up
                /\ UNCHANGED <<clock, nodev, wrk, net, ctl, written>>
                /\ NoGhost
                /\ Log(AtUnit([R0 EXCEPT !.a = "Cas", !.f = f, !.res = res, !.note = note], u))
Cas(u, f) == CasN(u, f, "-")

Dec(q) == {[b EXCEPT !.left = b.left - 1] : b \in {x \in q : x.left > 1}}

Gossip(n) ==
  /\ queueL[n] \cup queueG[n] # {}
  /\ LET out == {MsgOf(b) : b \in queueL[n] \cup queueG[n]} IN
       /\ sent' = IF n \in cut THEN sent ELSE sent \cup out      \* an isolated node's packets are lost
       /\ queueL' = [queueL EXCEPT ![n] = Dec(queueL[n])]
       /\ queueG' = [queueG EXCEPT ![n] = Dec(queueG[n])]
       /\ UNCHANGED <<clock, store, watch, pw, wrk, cut, bud, ctl, written>>
       /\ NoGhost
       /\ Log([R0 EXCEPT !.a = "Gossip", !.n = n, !.out = out, !.res = IF n \in cut THEN "lost" ELSE "kept"])

(* what the worker of u does after finishing an update: the gate is closed whenever a worker was held *)
NextItem(u) == IF inbox[u] = <<>> THEN [wk |-> WK0, ib |-> <<>>]
               ELSE [wk |-> [st |-> "dec", m |-> Head(inbox[u]), ver |-> 0], ib |-> Tail(inbox[u])]

(* NotifyMsg of message m for unit u while its worker is gated: taken by the worker / buffered / dropped *)
ReceiveGated(u, m, rec) ==
  IF wk[u].st = "idle"
  THEN \* the worker takes the update out of its channel and blocks in Decode
       /\ wk' = [wk EXCEPT ![u] = [st |-> "dec", m |-> m, ver |-> 0]]
       /\ UNCHANGED inbox
       /\ Log([rec EXCEPT !.res = "taken"])
  ELSE IF Len(inbox[u]) < InboxCap
       THEN /\ inbox' = [inbox EXCEPT ![u] = Append(inbox[u], m)]
            /\ UNCHANGED wk
            /\ Log([rec EXCEPT !.res = "buffered"])
       ELSE \* "notify queue full, dropping message"
            /\ UNCHANGED <<wk, inbox>>
            /\ Log([rec EXCEPT !.res = "dropped"])

Deliver(p, n, keep) ==
  /\ p \in sent
  /\ n \notin cut
  /\ IF ConsumeNet
       THEN IF keep THEN nfault < MaxFaults /\ nfault' = nfault + 1 /\ sent' = sent
                    ELSE nfault' = nfault /\ sent' = sent \ {p}
       ELSE ~keep /\ nfault' = nfault /\ sent' = sent
  /\ UNCHANGED <<clock, queueL, cut, ncas, ndel, ctl, written, gate>>
  /\ LET u == <<n, p.key>> IN
     IF wk[u].st = "idle" /\ ~gate[u]
     THEN \* NotifyMsg and the complete run of the per-key worker
          \E r \in {MV(store[u], p, FALSE, clock)} :
          \E x \in {After(u, r, FALSE)} :
             /\ store'  = [store  EXCEPT ![u] = x.st]
             /\ watch'  = [watch  EXCEPT ![u] = x.w]
             /\ pw'     = [pw     EXCEPT ![u] = x.pw]
             /\ queueG' = [queueG EXCEPT ![n] = QAdd(queueG[n], x.bs)]
             /\ UNCHANGED <<wk, inbox>>
             /\ GhostStep(Kills(queueG[n], x.bs), x.fwd)
             /\ Log(WithMsg([R0 EXCEPT !.a = "Deliver", !.n = n, !.res = IF r.changed THEN "ok" ELSE "nochange",
                                       !.note = r.silent], p))
     ELSE /\ UNCHANGED <<store, watch, pw, queueG>>
          /\ NoGhost
          /\ ReceiveGated(u, p, WithMsg([R0 EXCEPT !.a = "Deliver", !.n = n], p))

(* one step of a gated worker: processValueUpdate up to its next Decode / Encode *)
WorkBody(u) ==
  /\ wk[u].st # "idle"
  /\ UNCHANGED <<clock, queueL, net, bud, written, gate>>
  /\ LET n == Nd(u) IN
     IF wk[u].st = "dec"
     THEN \* mergeBytesValueForKey + notifyWatchers; broadcastNewValue then blocks in Encode
          \E r \in {MV(store[u], wk[u].m, FALSE, clock)} :
          \E x \in {After(u, r, FALSE)} :
          \E nx \in {NextItem(u)} :
             /\ store' = [store EXCEPT ![u] = x.st]
             /\ watch' = [watch EXCEPT ![u] = x.w]
             /\ pw'    = [pw    EXCEPT ![u] = x.pw]
             /\ UNCHANGED queueG
             /\ IF r.bc THEN /\ wk' = [wk EXCEPT ![u] = [st |-> "enc", m |-> MsgOf(BC(Ky(u), r.chg, r.st)), ver |-> r.st.ver]]
                             /\ UNCHANGED inbox
                        ELSE /\ wk' = [wk EXCEPT ![u] = nx.wk]
                             /\ inbox' = [inbox EXCEPT ![u] = nx.ib]
             /\ GhostStep({}, x.fwd)
             /\ Log(AtUnit(WithMsg([R0 EXCEPT !.a = "Work", !.res = IF r.changed THEN "merged" ELSE "nochange", !.note = r.silent], wk[u].m), u))
     ELSE \* QueueBroadcast(gossipBroadcasts) of the change of an earlier merge - possibly after newer ones
          \E b \in {[key |-> Ky(u), chg |-> wk[u].m.chg, del |-> wk[u].m.del, upd |-> wk[u].m.upd, ver |-> wk[u].ver, left |-> T]} :
          \E nx \in {NextItem(u)} :
             /\ queueG' = [queueG EXCEPT ![n] = QAdd(queueG[n], {b})]
             /\ wk' = [wk EXCEPT ![u] = nx.wk]
             /\ inbox' = [inbox EXCEPT ![u] = nx.ib]
             /\ UNCHANGED <<store, watch, pw>>
             /\ GhostStep(Kills(queueG[n], {b}), {})
             /\ Log(AtUnit(WithMsg([R0 EXCEPT !.a = "Work", !.res = "queued"], wk[u].m), u))
Work(u) == WorkBody(u) /\ UNCHANGED ctl

GateClose(u) ==
  /\ Nd(u) \in GateNodes /\ ~gate[u]
  /\ gate' = [gate EXCEPT ![u] = TRUE]
  /\ UNCHANGED <<clock, nodev, wk, inbox, net, bud, ctl, written>>
  /\ NoGhost
  /\ Log(AtUnit([R0 EXCEPT !.a = "GateClose"], u))

GateOpen(u) ==
  /\ gate[u] /\ wk[u].st = "idle"
  /\ gate' = [gate EXCEPT ![u] = FALSE]
  /\ UNCHANGED <<clock, nodev, wk, inbox, net, bud, ctl, written>>
  /\ NoGhost
  /\ Log(AtUnit([R0 EXCEPT !.a = "GateOpen"], u))

(* Malformed packets.  truncated / badcodec / emptykey are rejected by NotifyMsg itself.  badvalue has an intact *)
(* envelope (key, known codec) around value bytes the codec cannot decode: it travels through the worker channel *)
(* like any update and fails in the worker's Decode - with a closed gate it occupies the worker / a channel slot. *)
GarbageKinds == {"truncated", "badcodec", "emptykey", "badvalue"}
Undecodable(k) == Msg(k, Empty, FALSE, -2)
DeliverGarbage(p, n, k) ==
  /\ AllowGarbage /\ nfault < MaxFaults
  /\ p \in sent /\ n \notin cut
  /\ nfault' = nfault + 1
  /\ UNCHANGED <<clock, nodev, gate, net, ncas, ndel, ctl, written>>
  /\ NoGhost
  /\ LET u == <<n, p.key>> IN
     IF k # "badvalue" \/ (wk[u].st = "idle" /\ ~gate[u])
     THEN /\ UNCHANGED <<wk, inbox>>
          /\ Log(WithMsg([R0 EXCEPT !.a = "Garbage", !.n = n, !.k = k], p))
     ELSE ReceiveGated(u, Undecodable(p.key), WithMsg([R0 EXCEPT !.a = "Garbage", !.n = n, !.k = k], p))

(* memberlist push/pull: both sides take LocalState (all keys) first, then both merge (MergeRemoteState is synchronous) *)
LocalStateOf(u) == IF store[u].ver = 0 THEN Plain(Ky(u), Empty) ELSE Msg(Ky(u), store[u].val, store[u].del, store[u].upd)
Worst(S) == IF "silentgc" \in S THEN "silentgc" ELSE IF "quietgc" \in S THEN "quietgc" ELSE "-"
PPStep(a, b, junk, name) ==
  /\ UNCHANGED <<clock, queueL, wrk, net, ncas, ndel, written>>
  /\ \E ra \in {TLCEval([k \in Key |-> MV(store[<<a, k>>], LocalStateOf(<<b, k>>), FALSE, clock)])} :
     \E rb \in {TLCEval([k \in Key |-> MV(store[<<b, k>>], LocalStateOf(<<a, k>>), FALSE, clock)])} :
     \E xa \in {TLCEval([k \in Key |-> After(<<a, k>>, ra[k], FALSE)])} :
     \E xb \in {TLCEval([k \in Key |-> After(<<b, k>>, rb[k], FALSE)])} :
     \E ba \in {UNION {xa[k].bs : k \in Key}} :
     \E bb \in {UNION {xb[k].bs : k \in Key}} :
        /\ store'  = TLCEval([u \in Unit |-> IF Nd(u) = a THEN xa[Ky(u)].st ELSE IF Nd(u) = b THEN xb[Ky(u)].st ELSE store[u]])
        /\ watch'  = TLCEval([u \in Unit |-> IF Nd(u) = a THEN xa[Ky(u)].w  ELSE IF Nd(u) = b THEN xb[Ky(u)].w  ELSE watch[u]])
        /\ pw'     = TLCEval([u \in Unit |-> IF Nd(u) = a THEN xa[Ky(u)].pw ELSE IF Nd(u) = b THEN xb[Ky(u)].pw ELSE pw[u]])
        /\ queueG' = [queueG EXCEPT ![a] = QAdd(queueG[a], ba), ![b] = QAdd(queueG[b], bb)]
        /\ GhostStep(Kills(queueG[a], ba) \cup Kills(queueG[b], bb), UNION {xa[k].fwd \cup xb[k].fwd : k \in Key})
        /\ Log([R0 EXCEPT !.a = name, !.n = a, !.m = b, !.k = IF junk THEN "junk" ELSE "-",
                          !.note = Worst({ra[k].silent : k \in Key} \cup {rb[k].silent : k \in Key})])

PushPull(a, b, junk) ==
  /\ a < b /\ a \notin cut /\ b \notin cut
  /\ IF junk THEN AllowJunkPP /\ nfault < MaxFaults /\ nfault' = nfault + 1 ELSE nfault' = nfault
  /\ PPStep(a, b, junk, "PushPull")
  /\ UNCHANGED ctl

(* KV.Delete: marks the key deleted (key-level tombstone stamped now), notifies, gossips the whole value *)
DeleteKey(u) ==
  /\ ndel < MaxDel
  /\ ndel' = ndel + 1
  /\ UNCHANGED <<clock, queueL, wrk, net, ncas, nfault, ctl, written>>
  /\ LET n == Nd(u) IN
     IF store[u].ver = 0 \/ store[u].del
     THEN /\ UNCHANGED <<store, watch, pw, queueG>>
          /\ NoGhost
          /\ Log(AtUnit([R0 EXCEPT !.a = "Delete", !.res = "noop"], u))
     ELSE \E r \in {MV(store[u], Msg(Ky(u), store[u].val, TRUE, clock), FALSE, clock)} :
          \E x \in {After(u, r, FALSE)} :
             /\ store'  = [store  EXCEPT ![u] = x.st]
             /\ watch'  = [watch  EXCEPT ![u] = x.w]
             /\ pw'     = [pw     EXCEPT ![u] = x.pw]
             /\ queueG' = [queueG EXCEPT ![n] = QAdd(queueG[n], x.bs)]
             /\ GhostStep(Kills(queueG[n], x.bs), {})
             /\ Log(AtUnit([R0 EXCEPT !.a = "Delete", !.res = "ok"], u))

(* cleanupObsoleteEntries on node n (all its keys): a key leaves the store once its deletion is older than the *)
(* timeout; watchers are not told (observation O3).  It may be called at any time (nothing is removed unless    *)
(* obsolete); only modelled while the workers of n are idle.                                                    *)
Obsolete(s, now) == s.ver # 0 /\ s.del /\ now - s.upd > ObsoleteTimeout
Cleanup(n) ==
  /\ MaxDel > 0
  /\ \A u \in UnitsOf(n) : wk[u].st = "idle"
  /\ store' = TLCEval([u \in Unit |-> IF Nd(u) = n /\ Obsolete(store[u], clock) THEN C0 ELSE store[u]])
  /\ UNCHANGED <<clock, queueL, queueG, watch, pw, wrk, net, bud, ctl, written>>
  /\ NoGhost
  /\ Log([R0 EXCEPT !.a = "Cleanup", !.n = n, !.res = IF \E u \in UnitsOf(n) : Obsolete(store[u], clock) THEN "removed" ELSE "kept"])

WatcherArm(u) ==
  /\ Nd(u) \in HoldNodes /\ ~watch[u].held /\ ~watch[u].armed
  /\ watch' = [watch EXCEPT ![u].armed = TRUE]
  /\ UNCHANGED <<clock, store, queueL, queueG, pw, wrk, net, bud, ctl, written>>
  /\ NoGhost
  /\ Log(AtUnit([R0 EXCEPT !.a = "Arm"], u))

Released(u) == IF watch[u].pending
               THEN [watch[u] EXCEPT !.held = FALSE, !.pending = FALSE, !.last = Read(u)]
               ELSE [watch[u] EXCEPT !.held = FALSE]
WatcherRelease(u) ==
  /\ watch[u].held
  /\ watch' = [watch EXCEPT ![u] = Released(u)]
  /\ UNCHANGED <<clock, store, queueL, queueG, pw, wrk, net, bud, ctl, written>>
  /\ NoGhost
  /\ Log(AtUnit([R0 EXCEPT !.a = "Release"], u))

Partition(S) ==
  /\ AllowPartition /\ nfault < MaxFaults /\ cut = {} /\ S # {} /\ S # Node
  /\ cut' = S /\ nfault' = nfault + 1
  /\ UNCHANGED <<clock, nodev, wrk, sent, ncas, ndel, ctl, written>>
  /\ NoGhost
  /\ Log([R0 EXCEPT !.a = "Partition", !.out = S])

Heal ==
  /\ cut # {}
  /\ cut' = {}
  /\ UNCHANGED <<clock, nodev, wrk, sent, bud, ctl, written>>
  /\ NoGhost
  /\ Log([R0 EXCEPT !.a = "Heal"])

Reset(f, n, v) == TLCEval([u \in Unit |-> IF Nd(u) = n THEN v ELSE f[u]])
Restart(n) ==
  /\ AllowRestart /\ nfault < MaxFaults
  /\ nfault' = nfault + 1
  /\ store'  = Reset(store, n, C0)
  /\ queueL' = [queueL EXCEPT ![n] = {}]
  /\ queueG' = [queueG EXCEPT ![n] = {}]
  /\ watch'  = Reset(watch, n, W0)
  /\ pw'     = Reset(pw, n, PW0)
  /\ gate'   = Reset(gate, n, FALSE)
  /\ wk'     = Reset(wk, n, WK0)
  /\ inbox'  = Reset(inbox, n, <<>>)
  /\ UNCHANGED <<clock, net, ncas, ndel, ctl, written>>
  /\ NoGhost
  /\ Log([R0 EXCEPT !.a = "Restart", !.n = n])

-----------------------------------------------------------------------------
(* Quiescence suffix: every gated worker is stepped until idle and its gate opened, heal, QRounds rounds of *)
(* all-pairs push/pull, release of every watcher.                                                          *)
AllPairs == [k \in 1..(N * N) |-> <<((k - 1) \div N) + 1, ((k - 1) % N) + 1>>]
PairSeq  == SelectSeq(AllPairs, LAMBDA pr : pr[1] < pr[2])
UnitSeq  == [j \in 1..(N * NK) |-> <<((j - 1) \div NK) + 1, ((j - 1) % NK) + 1>>]
RECURSIVE Rep(_, _)
Rep(s, k) == IF k = 0 THEN <<>> ELSE s \o Rep(s, k - 1)
GateSeq  == SelectSeq(UnitSeq, LAMBDA u : u[1] \in GateNodes)
DrainOne(u) == Rep(<<<<"work", u[1], u[2]>>>>, 2 * (InboxCap + 1)) \o <<<<"open", u[1], u[2]>>>>
RECURSIVE DrainAll(_)
DrainAll(s) == IF s = <<>> THEN <<>> ELSE DrainOne(Head(s)) \o DrainAll(Tail(s))
QPlan == DrainAll(GateSeq) \o <<<<"heal", 0, 0>>>>
         \o Rep([k \in 1..Len(PairSeq) |-> <<"pp", PairSeq[k][1], PairSeq[k][2]>>], QRounds)
         \o [j \in 1..Len(UnitSeq) |-> <<"rel", UnitSeq[j][1], UnitSeq[j][2]>>]

StartQuiesce ==
  /\ Quiesce /\ phase = "run" /\ Len(hist) >= RunDepth
  /\ phase' = "quiesce"
  /\ UNCHANGED <<clock, nodev, wrk, net, bud, qidx, written, hist>>
  /\ NoGhost

QStep ==
  /\ phase = "quiesce"
  /\ IF qidx > Len(QPlan)
       THEN /\ phase' = "done"
            /\ UNCHANGED <<clock, nodev, wrk, net, bud, qidx, written, hist>>
            /\ NoGhost
       ELSE LET s == QPlan[qidx]
                u == <<s[2], s[3]>>
            IN
            /\ qidx' = qidx + 1
            /\ phase' = phase
            /\ CASE s[1] = "work" /\ wk[u].st # "idle" -> WorkBody(u)
                 [] s[1] = "open" /\ gate[u] /\ wk[u].st = "idle" ->
                      /\ gate' = [gate EXCEPT ![u] = FALSE]
                      /\ UNCHANGED <<clock, nodev, wk, inbox, net, bud, written>>
                      /\ NoGhost
                      /\ Log(AtUnit([R0 EXCEPT !.a = "GateOpen"], u))
                 [] s[1] = "heal" /\ cut # {} ->
                      /\ cut' = {}
                      /\ UNCHANGED <<clock, nodev, wrk, sent, bud, written>>
                      /\ NoGhost
                      /\ Log([R0 EXCEPT !.a = "Heal"])
                 [] s[1] = "pp" /\ cut = {} ->
                      /\ PPStep(s[2], s[3], FALSE, "PushPull")
                      /\ UNCHANGED nfault
                 [] s[1] = "rel" /\ watch[u].held ->
                      /\ watch' = [watch EXCEPT ![u] = Released(u)]
                      /\ UNCHANGED <<clock, store, queueL, queueG, pw, wrk, net, bud, written>>
                      /\ NoGhost
                      /\ Log(AtUnit([R0 EXCEPT !.a = "Release"], u))
                 [] OTHER ->
                      /\ UNCHANGED <<clock, nodev, wrk, net, bud, written, hist>>
                      /\ NoGhost

RunG == phase = "run" /\ (~Quiesce \/ Len(hist) < RunDepth)
(* one named disjunct per action so that TLC's coverage report lists every action separately *)
ATick      == RunG /\ Tick
ACas       == RunG /\ \E u \in Unit, f \in Fn : Cas(u, f)
AGossip    == RunG /\ \E n \in Node : Gossip(n)
ADeliver   == RunG /\ \E p \in sent, n \in Node, keep \in BOOLEAN : Deliver(p, n, keep)
AWork      == RunG /\ \E u \in Unit : Work(u)
AGateClose == RunG /\ \E u \in Unit : GateClose(u)
AGateOpen  == RunG /\ \E u \in Unit : GateOpen(u)
AGarbage   == RunG /\ \E p \in sent, n \in Node, k \in GarbageKinds : DeliverGarbage(p, n, k)
APushPull  == RunG /\ \E a, b \in Node, junk \in BOOLEAN : PushPull(a, b, junk)
ADelete    == RunG /\ \E u \in Unit : DeleteKey(u)
ACleanup   == RunG /\ \E n \in Node : Cleanup(n)
AArm       == RunG /\ \E u \in Unit : WatcherArm(u)
ARelease   == RunG /\ \E u \in Unit : WatcherRelease(u)
ARestart   == RunG /\ \E n \in Node : Restart(n)
APartition == RunG /\ \E S \in SUBSET Node : Partition(S)
AHeal      == RunG /\ Heal
Next == \/ ATick \/ ACas \/ AGossip \/ ADeliver \/ AWork \/ AGateClose \/ AGateOpen \/ AGarbage \/ APushPull
        \/ ADelete \/ ACleanup \/ AArm \/ ARelease \/ ARestart \/ APartition \/ AHeal
        \/ StartQuiesce
        \/ QStep

Spec == Init /\ [][Next]_vars

-----------------------------------------------------------------------------
(* Behaviour generation (-simulate): the parameters of every action are drawn with RandomElement, *)
(* so that one step costs one successor instead of the whole fan-out.  A behaviour may start with *)
(* one of four scripts (marked in the note of its first step) and continues freely afterwards.    *)
RE(S) == RandomElement(S)
RunOK == phase = "run" /\ Len(hist) < RunDepth
OpMix == <<"hb", "hb", "rm", "rm", "set">>
MkFn(k, i, st) == IF OpMix[k] = "set" THEN [op |-> "set", i |-> i, s |-> st] ELSE [op |-> OpMix[k], i |-> i, s |-> "-"]
Hb(i) == [op |-> "hb", i |-> i, s |-> "-"]
Script(name, len) == Len(hist) >= 1 /\ Len(hist) < len /\ hist[1].note = name
Start(cond) == cond /\ phase = "run" /\ Len(hist) = 0
Lo(a, b) == IF a < b THEN a ELSE b
Hi(a, b) == IF a < b THEN b ELSE a

(* relay (N >= 3, NI >= 2): node b, which already knows entry i, is handed a relayed packet that carries i AND j; *)
(* b may forward only what changed (j), and the next Gossip(b) shows it.                                          *)
InRelay == Script("relay", 8)
RelayStart == Start(N >= 3 /\ NI >= 2) /\ \E a \in {RE(Node)}, kk \in {RE(Key)}, i \in {RE(Inst)} : CasN(<<a, kk>>, Hb(i), "relay")
RelayStep ==
  /\ phase = "run" /\ InRelay
  /\ LET k == Len(hist)
         a == hist[1].n
         kk == hist[1].key
         i == hist[1].f.i
     IN CASE k = 1 -> Gossip(a)
          [] k = 2 -> \E b \in {RE(Node \ {a})} : Deliver(Plain(kk, hist[1].p), b, FALSE)
          [] k = 3 -> \E j \in {RE(Inst \ {i})} : Cas(<<a, kk>>, Hb(j))
          [] k = 4 -> \E c \in Node \ {a, hist[3].n} : PushPull(Lo(a, c), Hi(a, c), FALSE)
          [] k = 5 -> \E c \in Node \ {a, hist[3].n} : Gossip(c)
          [] k = 6 -> \E p \in {x \in sent : x.key = kk /\ Cardinality(Ids(x.chg)) = 2} : Deliver(p, hist[3].n, FALSE)
          [] k = 7 -> Gossip(hist[3].n)

(* reorder (a gated node g and another node a): g's worker merges {i@0} and is held before its QueueBroadcast; a   *)
(* push/pull then brings {i@1}, which is merged and queued at once with a higher version; only then the worker     *)
(* queues its older change.  It must not supersede the newer one: here the version test of Invalidates is visible. *)
InReorder == Script("reorder", 9)
ReorderStart == Start(GateNodes # {} /\ N >= 2 /\ MaxClock >= 1)
                /\ \E a \in {RE({x \in Node : GateNodes \ {x} # {}})}, kk \in {RE(Key)}, i \in {RE(Inst)} : CasN(<<a, kk>>, Hb(i), "reorder")
ReorderStep ==
  /\ phase = "run" /\ InReorder
  /\ LET k == Len(hist)
         a == hist[1].n
         kk == hist[1].key
         i == hist[1].f.i
     IN CASE k = 1 -> Gossip(a)
          [] k = 2 -> \E g \in {RE(GateNodes \ {a})} : GateClose(<<g, kk>>)
          [] k = 3 -> Deliver(Plain(kk, hist[1].p), hist[3].n, FALSE)
          [] k = 4 -> Work(<<hist[3].n, kk>>)
          [] k = 5 -> Tick
          [] k = 6 -> Cas(<<a, kk>>, Hb(i))
          [] k = 7 -> PushPull(Lo(a, hist[3].n), Hi(a, hist[3].n), FALSE)
          [] k = 8 -> Work(<<hist[3].n, kk>>)

(* tie (N >= 2, MaxClock >= 1): an entry gets live content s (any live state) at second 1 and is removed in the same *)
(* second.  Replica b receives the live copy first and then the tombstone: it must accept the tombstone whatever  *)
(* the state of its live copy.  Replica c (if N >= 3) receives the tombstone first: the live copy must not come   *)
(* back.  One behaviour per key x entry id x live content class covers both delivery orders.                      *)
TieLen == IF N >= 3 THEN 10 ELSE 8
InTie == Script("tie", TieLen)
TieStart == Start(N >= 2 /\ MaxClock >= 1)
            /\ \E a \in {RE(Node)}, kk \in {RE(Key)}, i \in {RE(Inst)} : CasN(<<a, kk>>, Hb(i), "tie")
TieStep ==
  /\ phase = "run" /\ InTie
  /\ LET k == Len(hist)
         a == hist[1].n
         kk == hist[1].key
         i == hist[1].f.i
         live == {x \in sent : x.key = kk /\ x.chg[i].ts = 1 /\ x.chg[i].st # LEFT}
         tomb == {x \in sent : x.key = kk /\ x.chg[i].ts = 1 /\ x.chg[i].st = LEFT}
     IN CASE k = 1 -> Tick
          [] k = 2 -> \E s \in {RE(LiveStates)} : Cas(<<a, kk>>, [op |-> "set", i |-> i, s |-> s])
          [] k = 3 -> Gossip(a)
          [] k = 4 -> Cas(<<a, kk>>, [op |-> "rm", i |-> i, s |-> "-"])
          [] k = 5 -> Gossip(a)
          [] k = 6 -> \E b \in {RE(Node \ {a})}, p \in live : Deliver(p, b, FALSE)
          [] k = 7 -> \E p \in tomb : Deliver(p, hist[7].n, FALSE)
          [] k = 8 -> \E c \in Node \ {a, hist[7].n}, p \in tomb : Deliver(p, c, FALSE)
          [] k = 9 -> \E p \in live : Deliver(p, hist[9].n, FALSE)

(* xkey (NK >= 2): two keys of one node are written with the same entry id (the same content name) one after the *)
(* other; both updates must stay queued - a broadcast supersedes only broadcasts of its own key.                  *)
InXKey == Script("xkey", 3)
XKeyStart == Start(NK >= 2) /\ \E a \in {RE(Node)}, kk \in {RE(Key)}, i \in {RE(Inst)} : CasN(<<a, kk>>, Hb(i), "xkey")
XKeyStep ==
  /\ phase = "run" /\ InXKey
  /\ LET k == Len(hist)
         a == hist[1].n
     IN CASE k = 1 -> \E k2 \in {RE(Key \ {hist[1].key})} : Cas(<<a, k2>>, Hb(hist[1].f.i))
          [] k = 2 -> Gossip(a)

(* unseen (N >= 2, NI >= 2, MaxClock >= 1): replica b holds the key but has never heard of entry i (it knows another *)
(* entry j); the tombstone of i reaches b BEFORE the earlier live message of i.  b must store the tombstone (and     *)
(* forward it), so that the late live message cannot create the entry.                                              *)
InUnseen == Script("unseen", 8)
UnseenStart == Start(N >= 2 /\ NI >= 2 /\ MaxClock >= 1)
               /\ \E a \in {RE(Node)}, kk \in {RE(Key)}, i \in {RE(Inst)} : CasN(<<a, kk>>, Hb(i), "unseen")
UnseenStep ==
  /\ phase = "run" /\ InUnseen
  /\ LET k == Len(hist)
         a == hist[1].n
         kk == hist[1].key
         i == hist[1].f.i
         live == {x \in sent : x.key = kk /\ x.chg[i] # Absent /\ x.chg[i].st # LEFT}
         tomb == {x \in sent : x.key = kk /\ x.chg[i].st = LEFT}
     IN CASE k = 1 -> Gossip(a)
          [] k = 2 -> Tick
          [] k = 3 -> Cas(<<a, kk>>, [op |-> "rm", i |-> i, s |-> "-"])
          [] k = 4 -> Gossip(a)
          [] k = 5 -> \E b \in {RE(Node \ {a})}, j \in {RE(Inst \ {i})} : Cas(<<b, kk>>, Hb(j))
          [] k = 6 -> \E p \in tomb : Deliver(p, hist[6].n, FALSE)
          [] k = 7 -> \E p \in live : Deliver(p, hist[6].n, FALSE)

(* lock (a key in LockKeys, N >= 2, MaxClock >= 2): node a changes the state-change lock of partition i (message m1: *)
(* old state, new lock timestamp); node b, which has not seen m1, removes the partition later (tombstone with the   *)
(* old lock); then the delayed m1 reaches b (and, if N >= 3, a replica c that received the tombstone first).  The   *)
(* lock may change - the tombstone must stay.                                                                      *)
LockLen == IF N >= 3 THEN 13 ELSE 10
InLock == Script("lock", LockLen)
LockStart == Start(Locks /\ N >= 2 /\ MaxClock >= 2)
             /\ \E a \in {RE(Node)}, kk \in {RE(LockKeys)}, i \in {RE({j \in Inst : j % 2 = 1})} : CasN(<<a, kk>>, Hb(i), "lock")
LockStep ==
  /\ phase = "run" /\ InLock
  /\ LET k == Len(hist)
         a == hist[1].n
         kk == hist[1].key
         i == hist[1].f.i
         live == {x \in sent : x.key = kk /\ x.chg[i] # Absent /\ x.chg[i].st # LEFT /\ x.chg[i].lts = -1}
         lckm == {x \in sent : x.key = kk /\ x.chg[i] # Absent /\ x.chg[i].st # LEFT /\ x.chg[i].lts # -1}
         tomb == {x \in sent : x.key = kk /\ x.chg[i].st = LEFT}
     IN CASE k = 1 -> Gossip(a)
          [] k = 2 -> \E b \in {RE(Node \ {a})}, p \in live : Deliver(p, b, FALSE)
          [] k = 3 -> Tick
          [] k = 4 -> Cas(<<a, kk>>, [op |-> "lock", i |-> i, s |-> "-"])
          [] k = 5 -> Gossip(a)
          [] k = 6 -> Tick
          [] k = 7 -> Cas(<<hist[3].n, kk>>, [op |-> "rm", i |-> i, s |-> "-"])
          [] k = 8 -> Gossip(hist[3].n)
          [] k = 9 -> \E p \in lckm : Deliver(p, hist[3].n, FALSE)
          [] k = 10 -> \E c \in Node \ {a, hist[3].n}, p \in tomb : Deliver(p, c, FALSE)
          [] k = 11 -> \E p \in lckm : Deliver(p, hist[11].n, FALSE)
          [] k = 12 -> Gossip(hist[11].n)

Free == RunOK /\ ~InRelay /\ ~InReorder /\ ~InTie /\ ~InXKey /\ ~InUnseen /\ ~InLock
GU == GateNodes \X Key
SimNext ==
  \/ RelayStart \/ RelayStart \/ RelayStep
  \/ ReorderStart \/ ReorderStep
  \/ TieStart \/ TieStart \/ TieStart \/ TieStart \/ TieStep
  \/ XKeyStart \/ XKeyStart \/ XKeyStep
  \/ UnseenStart \/ UnseenStart \/ UnseenStep
  \/ LockStart \/ LockStart \/ LockStart \/ LockStart \/ LockStep
  \/ Free /\ Locks /\ \E n \in {RE(Node)}, kk \in {RE(LockKeys)}, i \in {RE({j \in Inst : j % 2 = 1})} : Cas(<<n, kk>>, [op |-> "lock", i |-> i, s |-> "-"])
  \/ Free /\ Tick
  \/ Free /\ sent # {} /\ \E p \in {RE(sent)}, n \in {RE(Node)} : Deliver(p, n, FALSE)
  \/ Free /\ sent # {} /\ \E p \in {RE(sent)}, n \in {RE(Node)} : Deliver(p, n, FALSE)
  \/ Free /\ sent # {} /\ \E p \in {RE(sent)}, n \in {RE(Node)} : Deliver(p, n, FALSE)
  \/ Free /\ sent # {} /\ \E p \in {RE(sent)}, n \in {RE(Node)} : Deliver(p, n, FALSE)
  \/ Free /\ sent # {} /\ \E p \in {RE(sent)}, n \in {RE(Node)}, k \in {RE(GarbageKinds)} : DeliverGarbage(p, n, k)
  \/ Free /\ \E n \in {RE(Node)} : Gossip(n)
  \/ Free /\ \E n \in {RE(Node)} : Gossip(n)
  \/ Free /\ \E u \in {RE(Unit)}, k \in {RE(1..Len(OpMix))}, i \in {RE(Inst)}, st \in {RE(LiveStates)} : Cas(u, MkFn(k, i, st))
  \/ Free /\ \E u \in {RE(Unit)}, k \in {RE(1..Len(OpMix))}, i \in {RE(Inst)}, st \in {RE(LiveStates)} : Cas(u, MkFn(k, i, st))
  \/ Free /\ \E pr \in {RE({x \in Node \X Node : x[1] < x[2]})} : PushPull(pr[1], pr[2], FALSE)
  \/ Free /\ \E pr \in {RE({x \in Node \X Node : x[1] < x[2]})} : PushPull(pr[1], pr[2], TRUE)
  \/ Free /\ \E u \in {RE(Unit)} : WatcherArm(u) \/ WatcherRelease(u)
  \/ Free /\ \E n \in {RE(Node)} : Restart(n)
  \/ Free /\ \E S \in {RE((SUBSET Node) \ {{}, Node})} : Partition(S)
  \/ Free /\ Heal
  \/ Free /\ GU # {} /\ \E u \in {RE(GU)} : GateClose(u)
  \/ Free /\ GU # {} /\ RE(1..3) = 1 /\ \E u \in {RE(GU)} : GateOpen(u)
  \/ Free /\ GU # {} /\ sent # {} /\ \E p \in {RE(sent)}, n \in {RE(GateNodes)} : gate[<<n, p.key>>] /\ Deliver(p, n, FALSE)
  \/ Free /\ GU # {} /\ \E u \in {RE(GU)} : Work(u)
  \/ Free /\ GU # {} /\ \E u \in {RE(GU)} : Work(u)
  \/ Free /\ \E u \in {RE(Unit)} : DeleteKey(u)
  \/ Free /\ \E n \in {RE(Node)} : (\E u \in UnitsOf(n) : store[u].del) /\ Cleanup(n)
  \/ Free /\ \E n \in {RE(Node)} : (\E u \in UnitsOf(n) : store[u].del) /\ Cleanup(n)
  \/ StartQuiesce
  \/ QStep
SimSpec == Init /\ [][SimNext]_vars

-----------------------------------------------------------------------------
(* Invariants and action properties *)
QEntry(b) == /\ b.key \in Key /\ b.chg \in Desc /\ b.left \in 1..T /\ b.ver \in Nat /\ b.ver >= 1
             /\ b.del \in BOOLEAN /\ b.upd \in -1..MaxClock
TypeOK ==
  /\ clock \in 0..MaxClock
  /\ \A u \in Unit : /\ store[u].val \in Desc /\ store[u].ver \in Nat
                     /\ store[u].del \in BOOLEAN /\ store[u].upd \in -1..MaxClock
                     /\ (store[u].ver = 0) => store[u] = C0
                     /\ (~store[u].del) => store[u].upd = -1
  /\ \A p \in sent : p.key \in Key /\ p.chg \in Desc /\ p.del \in BOOLEAN
  /\ \A n \in Node : \A b \in queueL[n] \cup queueG[n] : QEntry(b) /\ (Ids(b.chg) # {} \/ b.del)
  /\ \A u \in Unit : /\ wk[u].st \in {"idle", "dec", "enc"}
                     /\ Len(inbox[u]) <= InboxCap
                     /\ (wk[u].st # "idle") => gate[u]            \* a worker is only ever held behind a closed gate
                     /\ (wk[u].st = "idle") => inbox[u] = <<>>   \* and an idle worker has an empty channel
                     /\ gate[u] => Nd(u) \in GateNodes

Tomb(u, i)  == store[u].val[i].st = LEFT
Alive(u, i) == store[u].val[i] # Absent /\ ~Tomb(u, i)
QueuesOf(u) == {b \in queueL[Nd(u)] \cup queueG[Nd(u)] : b.key = Ky(u)}

(* C04 *)
TombstonesInvisible ==
  \A u \in Unit : NoLeft(Read(u)) /\ NoLeft(watch[u].last) /\ NoLeft(pw[u].last)

(* Tokens are not state of the specification: a live entry carries its id's own tokens, a tombstone carries *)
(* none; the projection of the harness checks exactly that on the code.                                      *)

TombstonesForwardedStep ==     \* a step that creates or renews a tombstone on u queues a broadcast of u's key that carries it
  \A u \in Unit, i \in Inst :    \* (a gated worker holds it until its QueueBroadcast step)
     (store'[u].val[i].st = LEFT /\ store'[u].val[i] # store[u].val[i])
       => \/ \E b \in queueL'[Nd(u)] \cup queueG'[Nd(u)] : b.key = Ky(u) /\ b.chg[i] = store'[u].val[i] /\ b.left = T
          \/ wk'[u].st = "enc" /\ wk'[u].m.chg[i] = store'[u].val[i]
TombstonesForwarded == [][TombstonesForwardedStep]_vars
(* LocalState carries the tombstones: PushPull hands store[u].val (tombstones included) to the peer, and *)
(* the harness reads store[u].val of the real node out of the very bytes LocalState returns.            *)

NoResurrectionStep ==   \* while a tombstone is in the store nothing that is not strictly newer replaces it
  \A u \in Unit, i \in Inst :
     (Tomb(u, i) /\ store'[u].ver # 0 /\ store'[u].val[i] # Absent /\ store'[u].val[i].st # LEFT)
        => store'[u].val[i].ts > store[u].val[i].ts
NoResurrection == [][NoResurrectionStep]_vars

GCOnlyExpiredStep ==    \* a tombstone disappears from a running node only by expiry
  \A u \in Unit, i \in Inst :
     (Tomb(u, i) /\ store'[u].ver # 0 /\ store'[u].val[i] = Absent) => Expired(store[u].val[i], clock)
GCOnlyExpired == [][GCOnlyExpiredStep]_vars

NoExpiredTombstoneStored ==   \* what a changing merge leaves behind contains no expired tombstone
  [][\A u \in Unit : store'[u] # store[u] => \A i \in Inst : ~Expired(store'[u].val[i], clock')]_vars

(* key-level tombstone (KV.Delete) *)
DeletedStaysDeletedStep ==    \* nothing - no older update, no newer one, no CAS - clears the Deleted flag while the key is kept
  \A u \in Unit : (store[u].del /\ store'[u].ver # 0) => (store'[u].del /\ store'[u].upd >= store[u].upd)
DeletedStaysDeleted == [][DeletedStaysDeletedStep]_vars
RemovedOnlyWhenObsoleteStep ==   \* a deleted key leaves a running node only after ObsoleteTimeout (checked where nodes do not restart)
  AllowRestart \/ \A u \in Unit : (store[u].ver # 0 /\ store'[u].ver = 0) => Obsolete(store[u], clock)
RemovedOnlyWhenObsolete == [][RemovedOnlyWhenObsoleteStep]_vars
DeletedNotRevivedStep ==      \* a node that does not hold the key never creates it from a message that says "deleted"
  \A u \in Unit : (store[u].ver = 0 /\ store'[u].ver # 0) => ~store'[u].del
DeletedNotRevived == [][DeletedNotRevivedStep]_vars

(* C06 *)
RR(s, c) == Merge(s, c, FALSE, 0).result
Contains(b, o) == \A s \in Desc : RR(RR(s, o), b) = RR(s, b)
(* a queued update is superseded only by an update OF THE SAME KEY that contains it - up to tombstones that are   *)
(* older than the retention, which every receiver would collect on arrival anyway; and up to broadcasts of a key *)
(* deletion that is itself obsolete (after Cleanup a node's versions restart from 1, so such a left-over         *)
(* broadcast can be superseded by an older update: observation O4)                                               *)
InvalidationSafe == \A x \in inval : /\ x.ok = x.bk
                                     /\ (x.od /\ (clock - x.ou > ObsoleteTimeout)) \/ Contains(x.b, GCd(x.o, clock))

OnlyChangesForwardedStep ==   \* the change a merge hands on is exactly what changed in the store, as it is now in the store
  \A x \in fwd' :
     \/ store'[x.u].del       \* the whole value travels with the Deleted flag
     \/ /\ \A i \in Ids(x.chg) : x.chg[i] = store'[x.u].val[i] /\ x.chg[i] # store[x.u].val[i]
        /\ \A i \in Inst \ Ids(x.chg) : \/ store'[x.u].val[i] = store[x.u].val[i]
                                         \/ store'[x.u].val[i] = Absent   \* collected, or killed by an expired tombstone
OnlyChangesForwarded == [][OnlyChangesForwardedStep]_vars

(* componentwise: the state and the lock of a partition are merged independently, so a stored entry may combine *)
(* the state one CAS wrote with the lock another CAS wrote                                                      *)
WasWritten(k, i, e) == /\ \E w \in written : w[1] = k /\ w[2] = i /\ w[3].ts = e.ts /\ w[3].st = e.st
                       /\ \E w \in written : w[1] = k /\ w[2] = i /\ w[3].lts = e.lts /\ w[3].lk = e.lk
NoInventedContent ==
  \A u \in Unit, i \in Inst : store[u].val[i] # Absent => WasWritten(Ky(u), i, store[u].val[i])
SentIsWritten ==
  \A p \in sent : \A i \in Ids(p.chg) : WasWritten(p.key, i, p.chg[i])

(* a watcher that is not blocked in its callback has seen the value readers see - except that the removal *)
(* of an obsolete deleted key (Cleanup) is not announced (observation O3)                                  *)
WatcherNeverStale ==
  \A u \in Unit : Nd(u) \in WatchNodes =>
     \/ watch[u].held /\ watch[u].pending
     \/ IF store[u].ver = 0 THEN (~watch[u].called \/ MaxDel > 0) ELSE watch[u].called /\ watch[u].last = Read(u)
PrefixWatcherNeverStale ==
  \A u \in Unit : IF store[u].ver = 0 THEN (~pw[u].called \/ MaxDel > 0) ELSE pw[u].called /\ pw[u].last = Read(u)

VersionCountsChanges ==     \* (after a Cleanup versions restart from 1 while older broadcasts are still queued)
  MaxDel > 0 \/ \A u \in Unit : \A b \in QueuesOf(u) : b.ver <= store[u].ver

(* convergence: what readers see, a deleted key counting as gone *)
Vis(u) == IF store[u].del THEN Empty ELSE Read(u)
Converged == \A k \in Key : \A a, b \in Node : Vis(<<a, k>>) = Vis(<<b, k>>)
WatchersCaughtUp == \A u \in Unit : Nd(u) \in WatchNodes => (~watch[u].held /\ (store[u].ver # 0 => watch[u].called /\ watch[u].last = Read(u)))
WorkersIdle == \A u \in Unit : wk[u].st = "idle" /\ ~gate[u]
QuiescentOK == phase = "done" => Converged /\ WatchersCaughtUp /\ WorkersIdle

Healed == cut = {}
Fairness == /\ \A a, b \in Node : WF_vars(PushPull(a, b, FALSE))
            /\ \A u \in Unit : WF_vars(WatcherRelease(u))
FairSpec == Spec /\ Fairness
Convergence == (<>[]Healed) => <>[](Converged /\ WatchersCaughtUp)

(* behaviour emission (simulation): one JSON line per finished behaviour *)
EmitDone == phase = "done" => PrintT(ToJson([hist |-> hist, final |-> [k \in Key |-> Vis(<<1, k>>)]]))
=============================================================================
