#!/usr/bin/env python3
import json, subprocess, sys
pid=sys.argv[1]; tag=sys.argv[2] if len(sys.argv)>2 else 'a'; n=sys.argv[3] if len(sys.argv)>3 else '3'
props={json.loads(l)['id']:json.loads(l) for l in open('/verif/properties.jsonl')}
p=props[pid]
wt='/tmp/mut_%s_%s'%(pid.lower(),tag)
subprocess.run(['git','-C','/repo','worktree','add','--detach',wt,'HEAD'],check=True,capture_output=True)
t=open('/verif/.prompts/mutant_tmpl.txt').read()
print(t.format(wt=wt,pid=pid,title=p['title'],statement=p['statement'],quant=p['quantifier']['text'],files=', '.join(p['anchors']['files']),n=n))
