--------------------------- MODULE PartitionRingGen ---------------------------
(***************************************************************************)
(* C15, pure part - TLC enumerates a bounded universe of partition rings   *)
(* (routing) and of owner / instance-ring combinations (replication sets), *)
(* checks the routing theorem on each and emits the expected results of    *)
(* PartitionRingOps as one JSON line per case for harness/c15 to replay    *)
(* into the real code.                                                     *)
(***************************************************************************)
EXTENDS PartitionRingOps, TLC, Json

CONSTANTS Modes,    \* subset of {"route", "repl", "multi"}: the universes enumerated in this run
          NK, Gaps, \* route: key-class layout (abs.KeyClasses): classes 0..NK-1, Gaps are not token positions
          NRoute,   \* route: partitions 1..NRoute
          MaxTok,   \* route: tokens per existing partition: 1..MaxTok
          NRepl, NOwnRepl, StatesRepl, AgesRepl,     \* repl: partitions, owners, instance states, heartbeat ages
          NMulti, NOwnMulti, StatesMulti, AgesMulti, \* multi: the same for multi-partition owners
          IdxMulti, \* multi: numeric suffixes of the instance names (NoIdx = a name without a numeric suffix)
          T         \* heartbeat timeout (s)

Key    == 0..(NK - 1)
TokPos == Key \ Gaps
PState == {"P", "A", "I"}
NMax    == IF NRoute > NRepl THEN (IF NRoute > NMulti THEN NRoute ELSE NMulti) ELSE (IF NRepl > NMulti THEN NRepl ELSE NMulti)
NOwnMax == IF NOwnRepl > NOwnMulti THEN NOwnRepl ELSE NOwnMulti
PidAll  == 1..NMax
OwnerAll == 1..NOwnMax

VARIABLES Mode,     \* which universe this case belongs to
          phase,    \* "seed" | "case"
          own,      \* route: own[c] = partition owning the token at class c (0 = none)
          st,       \* state of partition p ("P" for a partition without tokens = not in the ring)
          ownerOf,  \* repl/multi: ownerOf[o] = partition owner o is registered for (0 = not registered)
          inst      \* repl/multi: inst[o] = [known, st, age, zone, ro, idx]

vars == <<Mode, phase, own, st, ownerOf, inst>>

N      == CASE Mode = "route" -> NRoute [] Mode = "repl" -> NRepl [] Mode = "multi" -> NMulti
NOwn   == IF Mode = "multi" THEN NOwnMulti ELSE NOwnRepl
Pid    == 1..N
OwnerI == 1..NOwn

Toks(p)  == {c \in TokPos : own[c] = p}
Present  == {p \in Pid : Toks(p) # {}}
TokPid   == [c \in {c \in TokPos : own[c] # 0} |-> own[c]]
ActSet   == {p \in Present : st[p] = "A"}
PresentSt == [p \in Present |-> st[p]]

Unknown(o) == [known |-> FALSE, st |-> "LEFT", age |-> 0, zone |-> 0, ro |-> FALSE, idx |-> o]
Unk == [st |-> "UNK", age |-> 0, zone |-> 0, ro |-> FALSE, idx |-> 0]
Choice ==      \* what the instance ring may say about a registered owner (Unk: it does not know it)
    (IF Mode = "multi"
     THEN [st : StatesMulti, age : AgesMulti, zone : {1, 2}, ro : BOOLEAN, idx : IdxMulti]
     ELSE [st : StatesRepl, age : AgesRepl, zone : {1, 2}, ro : {FALSE}, idx : {0}]) \cup {Unk}
InstOf(c, o) == IF c.st = "UNK" THEN Unknown(o)
                ELSE [known |-> TRUE, st |-> c.st, age |-> c.age, zone |-> c.zone, ro |-> c.ro,
                      idx |-> IF Mode = "multi" THEN c.idx ELSE o]

NoRing  == [c \in TokPos |-> 0]
NoSt    == [p \in PidAll |-> "P"]
NoOwner == [o \in OwnerAll |-> 0]
NoInst  == [o \in OwnerAll |-> Unknown(o)]

(* Seeds: every token layout (route) / every registration vector (repl, multi).    *)
Init == /\ Mode \in Modes
        /\ phase = "seed"
        /\ IF Mode = "route"
           THEN /\ own \in [TokPos -> 0..N]
                /\ Present # {}
                /\ \A p \in Pid : Cardinality(Toks(p)) <= MaxTok
                /\ ownerOf = NoOwner
           ELSE /\ own = NoRing
                /\ ownerOf \in {f \in [OwnerAll -> 0..N] : \A o \in OwnerAll \ OwnerI : f[o] = 0}
        /\ st = NoSt
        /\ inst = NoInst

(* One step: every state mix (route) / every instance-ring content for the          *)
(* registered owners (an unregistered owner's instance is irrelevant).              *)
Next == /\ phase = "seed"
        /\ phase' = "case"
        /\ UNCHANGED Mode
        /\ IF Mode = "route"
           THEN /\ st' \in {s \in [PidAll -> PState] : \A p \in PidAll \ Present : s[p] = "P"}
                /\ UNCHANGED <<own, ownerOf, inst>>
           ELSE /\ \E c \in [{o \in OwnerI : ownerOf[o] # 0} -> Choice] :
                     inst' = [o \in OwnerAll |-> IF o \in DOMAIN c THEN InstOf(c[o], o) ELSE Unknown(o)]
                /\ UNCHANGED <<own, st, ownerOf>>

Spec == Init /\ [][Next]_vars

(* RoutingTotal on every ring of the universe, every key class.                     *)
RoutingTotal == (Mode = "route" /\ phase = "case") => RoutingTotalOn(TokPid, ActSet, Key)

(* The snapshot queries partition the ring's ids; the batch view counts the active ones and the    *)
(* shard size never exceeds them.                                                                   *)
SnapshotSound ==
    (Mode = "route" /\ phase = "case") =>
        /\ UNION {IdsInState(PresentSt, s) : s \in PState} = Present
        /\ \A s, u \in PState : s # u => IdsInState(PresentSt, s) \cap IdsInState(PresentSt, u) = {}
        /\ IdsInState(PresentSt, "A") = ActSet
        /\ BatchInstancesCount(PresentSt) = Cardinality(ActSet)
        /\ \A size \in -1..(N + 1) : LET z == ShardSize(Cardinality(ActSet), size) IN
               z <= Cardinality(ActSet) /\ (size \in 1..Cardinality(ActSet) => z = size)

(* Replication sets are exactly the healthy registered owners, and need one.        *)
Ops == {"Write", "Read", "Reporting"}
(* ... on EVERY partition ring a PartitionInstanceRing can be built over: the whole ring and any     *)
(* sub-ring (ShuffleShard / ShuffleShardWithLookback hand out rings over a subset M of partitions).  *)
ReplExact ==
    (Mode = "repl" /\ phase = "case") =>
        \A op \in Ops : \A M \in SUBSET Pid :
            LET r == ReplicationSets(M, ownerOf, inst, op, T) IN
            /\ (r.err = "empty") <=> (M = {})
            /\ r.err = "none" <=> (M # {} /\ \A p \in M : \E o \in OwnerI : ownerOf[o] = p /\ Healthy(inst[o], op, T))
            /\ r.err = "none" => \A p \in M : /\ r.sets[p].instances # {}
                                               /\ \A o \in OwnerI : o \in r.sets[p].instances
                                                      <=> (ownerOf[o] = p /\ Healthy(inst[o], op, T))
MultiSound ==
    (Mode = "multi" /\ phase = "case") =>
        \A op \in Ops : \A p \in Pid :
            LET r == MultiReplicationSet(ownerOf, inst, p, op, T) IN
            r.err = "none" =>
                /\ r.instances # {}
                /\ \A o \in r.instances : ownerOf[o] = p /\ Healthy(inst[o], op, T)
                /\ \A o, q \in r.instances : o # q => inst[o].zone # inst[q].zone
                /\ \A o \in OwnerI : (ownerOf[o] = p /\ Healthy(inst[o], op, T)) =>
                        \E q \in r.instances : inst[q].zone = inst[o].zone

SetSeq(S) == SetToSortSeq(S, <)

EmitRoute ==
    LET keys == [i \in 1..NK |-> i - 1]
        kbp  == KeysByPartition(TokPid, ActSet, keys)
    IN PrintT(ToJson([
        mode  |-> Mode,
        own   |-> [j \in 1..NK |-> IF (j - 1) \in Gaps THEN -1 ELSE own[j - 1]],
        st    |-> [p \in Pid |-> st[p]],
        route |-> [j \in 1..NK |-> ActivePartition(TokPid, ActSet, j - 1)],
        kbpErr |-> kbp.err,
        kbpEmptyErr |-> KeysByPartition(TokPid, ActSet, << >>).err,
        ids   |-> [s \in PState |-> IdsInState(PresentSt, s)],
        all   |-> Present,
        shard |-> [j \in 1..(N + 3) |-> ShardSize(Cardinality(ActSet), j - 2)],   \* sizes -1 .. N+1
        batchCount |-> BatchInstancesCount(PresentSt),
        batchRF |-> BatchReplicationFactor,
        kbp   |-> {[p |-> p, classes |-> {i - 1 : i \in kbp.groups[p]}] : p \in DOMAIN kbp.groups}]))

EmitRepl ==
    PrintT(ToJson([
        mode    |-> Mode,
        np      |-> N,
        ownerOf |-> [o \in OwnerI |-> ownerOf[o]],
        inst    |-> [o \in OwnerI |-> inst[o]],
        ownersOf |-> [p \in Pid |-> OwnersOfPartition(ownerOf, p)],
        res     |-> [op \in Ops |->
                      {LET r == ReplicationSets(M, ownerOf, inst, op, T) IN
                       [m |-> M, err |-> r.err,
                        sets |-> IF r.err = "none"
                                 THEN {[p |-> p, instances |-> r.sets[p].instances, muz |-> r.sets[p].maxUnavailableZones,
                                        maxErrors |-> r.sets[p].maxErrors, zoneAware |-> r.sets[p].zoneAware] : p \in M}
                                 ELSE {}] : M \in SUBSET Pid}]]))

EmitMulti ==
    PrintT(ToJson([
        mode    |-> Mode,
        np      |-> N,
        ownerOf |-> [o \in OwnerI |-> ownerOf[o]],
        inst    |-> [o \in OwnerI |-> inst[o]],
        ownersOf |-> [p \in Pid |-> OwnersOfPartition(ownerOf, p)],
        res     |-> [op \in Ops |->
                      {LET r == MultiReplicationSet(ownerOf, inst, p, op, T) IN
                       [p |-> p, err |-> r.err,
                        instances |-> IF r.err = "none" THEN r.instances ELSE {},
                        muz |-> IF r.err = "none" THEN r.maxUnavailableZones ELSE 0] : p \in Pid}]]))

Emit == phase = "case" => CASE Mode = "route" -> EmitRoute
                            [] Mode = "repl"  -> EmitRepl
                            [] Mode = "multi" -> EmitMulti
=============================================================================
