\* C20 propagation: chains of up to 6 hops, ids {"" , a, b}, both channels; one behaviour is
\* emitted per transition of the state graph (VIEW without the history).
CONSTANTS
  Ids = {0, 1, 2}
  Channels = {"org", "user"}
  MaxHops = 6
  InProc = TRUE
  WireHops = FALSE
  HTTPRefused = {}
  GRPCRefused = {}
  HTTPTrim <- NoTrim
INIT Init
NEXT Next
VIEW view
INVARIANTS TypeOK Unchanged NeverDefaulted SingleValueWritten RefusalHasReason
PROPERTIES UnchangedStep RefusalIsFinal
ACTION_CONSTRAINT EmitStep
CHECK_DEADLOCK FALSE
