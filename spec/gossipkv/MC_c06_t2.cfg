\* C06 thorough (safety): two transmissions per broadcast (T=2), retention 1 s.
CONSTANTS
  N = 2
  NI = 2
  MaxClock = 1
  Retention = 1
  T = 2
  MaxCas = 3
  MaxFaults = 0
  LiveStates = {"ACTIVE"}
  WatchNodes = {1, 2}
  HoldNodes = {1}
  AllowRestart = FALSE
  AllowGarbage = FALSE
  AllowPartition = FALSE
  AllowJunkPP = FALSE
  ConsumeNet = FALSE
  Ideal = TRUE
  Ghost = TRUE
  Record = FALSE
  Quiesce = FALSE
  RunDepth = 0
  QRounds = 2
SPECIFICATION Spec
VIEW view
INVARIANTS TypeOK TombstonesInvisible InvalidationSafe NoInventedContent SentIsWritten WatcherNeverStale VersionCountsChanges
PROPERTIES TombstonesForwarded NoResurrection GCOnlyExpired NoExpiredTombstoneStored OnlyChangesForwarded
CHECK_DEADLOCK FALSE
