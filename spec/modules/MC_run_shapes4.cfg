CONSTANTS
  N = 4
  Graphs <- ClosedShapes
  Faults = {}
  AwaitStoppingInner = TRUE
  LateStart = FALSE
INIT InitMain
NEXT Next
VIEW view
INVARIANTS TypeOK StopOrderState FailurePropagates
PROPERTIES StartAfterDeps StopAfterDependants
CHECK_DEADLOCK TRUE
