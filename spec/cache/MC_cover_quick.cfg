\* quick tier generation: one behaviour per transition of the complete graph (all operation variants,
\* map-order-dependent steps excluded) of LRU (capacity 1, default TTL 1..2) over the backend.
CONSTANTS
  StackIds = {2}
  Caps = {1}
  DTTLs = {1, 2}
  Keys = {"k1", "k2"}
  Values = {"a", "b"}
  TTLs = {1, 2}
  Deltas = {1}
  NViews = 2
  PokeTTLs = {}
  MaxOps = 1000
  Faults = FALSE
  Full = TRUE
  DetOnly = TRUE
  Wrong = "none"
INIT Init
NEXT Next
VIEW View
ACTION_CONSTRAINT EmitStep
INVARIANTS TypeOK
CHECK_DEADLOCK FALSE
