----------------------------- MODULE RingClientMC -----------------------------
(* Model-checking instances of RingClient: the shard function is the abstract walk. *)
EXTENDS RingClient

MCCompute(ix, lv, id, size, L, W) == AbstractShard(ix, lv, id, size, L, W)

MinOf(S) == CHOOSE x \in S : \A y \in S : x <= y
MaxOf(S) == CHOOSE x \in S : \A y \in S : y <= x
StartRec(i) == [addr |-> MinOf(Addrs), zone |-> IF i % 2 = 1 THEN MinOf(Zones) ELSE MaxOf(Zones), tok |-> MaxOf(Toks),
                reg |-> MinOf(Stamps \ {0}), ro |-> FALSE, rots |-> 0,
                state |-> "ACTIVE", ts |-> MinOf(Beats)]
FullDesc == [i \in Inst |-> StartRec(i)]

\* "update" configurations: the client starts on an empty store or with every instance registered
\* (the interesting histories then fit in MaxUpd updates)
NarrowInitDescs == {NoDesc, FullDesc}

\* "window" configurations: the client starts on ANY combination of registration time, read-only flag
\* and read-only time (the fields the look-back validity window is computed from)
WideInitDescs == {[i \in Inst |-> [StartRec(i) EXCEPT !.reg = f[i][1], !.ro = f[i][2], !.rots = f[i][3]]] :
                     f \in [Inst -> Stamps \X BOOLEAN \X Stamps]}
=============================================================================
