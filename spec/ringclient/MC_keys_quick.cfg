\* cache keys: 2 identifiers x 2 look-back periods, CleanupShuffleShardCache; address / registration / heartbeat updates
CONSTANTS
  Inst = {1, 2}
  Ident = {1, 2}
  Sizes = {1}
  Lookbacks = {1, 2}
  Times = {4}
  Readers = {}
  MaxUpd = 2
  ZoneAware = FALSE
  Addrs = {1, 2}
  Zones = {1}
  Toks = {0}
  Stamps = {0, 2}
  States = {"ACTIVE"}
  Beats = {1, 2}
  Compute <- MCCompute
  InitDescs <- NarrowInitDescs
INIT Init
NEXT Next
INVARIANTS TypeOK UnobservableFast PendingSound
