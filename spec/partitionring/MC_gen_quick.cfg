CONSTANTS
  Modes = {"route", "repl", "multi"}
  NK = 6
  Gaps = {3}
  NRoute = 3
  MaxTok = 2
  NRepl = 2
  NOwnRepl = 3
  StatesRepl = {"ACTIVE", "LEAVING"}
  AgesRepl = {2, 3}
  NMulti = 1
  NOwnMulti = 3
  StatesMulti = {"ACTIVE"}
  AgesMulti = {2, 3}
  IdxMulti = {1, 2}
  T = 2
INIT Init
NEXT Next
INVARIANTS RoutingTotal SnapshotSound ReplExact MultiSound Emit
CHECK_DEADLOCK FALSE
