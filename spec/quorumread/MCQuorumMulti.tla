---------------------------- MODULE MCQuorumMulti ----------------------------
EXTENDS QuorumMulti
\* 2..3 replication sets of 1..2 instances
ShapesQuick    == {<<1, 1>>, <<2, 1>>}
ShapesThorough == {<<1, 1>>, <<2, 1>>, <<1, 2>>, <<2, 2>>, <<1, 1, 1>>, <<2, 1, 1>>}
\* with the in-flight tracker (callbacks calling their CancelCauseFunc at any time); <<1>>: one set = delegation
ShapesDoneQuick == {<<1>>, <<1, 1>>}
=============================================================================
