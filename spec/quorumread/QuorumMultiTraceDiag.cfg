CONSTANTS
  Shapes <- AnyShapes
INIT TInit
NEXT TNext
INVARIANTS EmitProgress
CHECK_DEADLOCK FALSE
