package c06

import (
	"context"
	"fmt"
	"testing"
	"testing/synctest"
	"time"

	"github.com/go-kit/log"
	"github.com/grafana/dskit/flagext"
	"github.com/grafana/dskit/kv/codec"
	"github.com/grafana/dskit/kv/memberlist"
	"github.com/grafana/dskit/ring"
	"github.com/grafana/dskit/services"
)

func mk(t *testing.T) (*memberlist.KV, *memberlist.Client) {
	var cfg memberlist.KVConfig
	flagext.DefaultValues(&cfg)
	cfg.Codecs = []codec.Codec{ring.GetCodec()}
	cfg.RetransmitMult = 1
	cfg.LeftIngestersTimeout = 2 * time.Second
	cfg.NotifyInterval = 0
	kv := memberlist.NewDetachedKVForVerif(cfg, log.NewNopLogger(), func() int { return 2 })
	if err := services.StartAndAwaitRunning(context.Background(), kv); err != nil {
		t.Fatal(err)
	}
	c, err := memberlist.NewClient(kv, ring.GetCodec())
	if err != nil {
		t.Fatal(err)
	}
	return kv, c
}

func show(kv *memberlist.KV) string {
	s := kv.StoreSnapshotForVerif()
	v, ok := s["ring"]
	if !ok {
		return "<none>"
	}
	d, _ := kv.Get("ring", ring.GetCodec())
	_ = d
	return fmt.Sprintf("ver=%d del=%v", v.Version, v.Deleted)
}

func TestProbe(t *testing.T) {
	synctest.Test(t, func(t *testing.T) {
		epoch := time.Now().Unix()
		a, ca := mk(t)
		b, cb := mk(t)
		ctx, cancel := context.WithCancel(context.Background())
		defer cancel()
		var lastB any
		ncalls := 0
		go cb.WatchKey(ctx, "ring", func(v any) bool { lastB = v; ncalls++; return true })
		synctest.Wait()
		// register i-1 at A at clock 0
		err := ca.CAS(ctx, "ring", func(in any) (any, bool, error) {
			d := ring.GetOrCreateRingDesc(in)
			d.AddIngester("i-1", "a", "", []uint32{1, 2}, ring.ACTIVE, time.Time{}, false, time.Time{}, nil)
			return d, true, nil
		})
		fmt.Println("cas1", err)
		pk1 := a.GetBroadcasts(0, 1<<20)
		fmt.Println("pk1", len(pk1))
		b.NotifyMsg(pk1[0])
		synctest.Wait()
		fmt.Println("B watcher", ncalls, lastB)
		// remove at A same second
		err = ca.CAS(ctx, "ring", func(in any) (any, bool, error) {
			d := ring.GetOrCreateRingDesc(in)
			d.RemoveIngester("i-1")
			return d, true, nil
		})
		fmt.Println("cas2", err)
		pk2 := a.GetBroadcasts(0, 1<<20)
		fmt.Println("pk2", len(pk2))
		time.Sleep(3 * time.Second)
		fmt.Println("clock", time.Now().Unix()-epoch)
		b.NotifyMsg(pk2[0])
		synctest.Wait()
		v, _ := cb.Get(ctx, "ring")
		fmt.Println("B get", v, "watcher", ncalls, lastB, show(b))
		snap := b.StoreSnapshotForVerif()
		fmt.Printf("B snap %+v\n", snap["ring"])
		l, g := b.NumQueuedForVerif()
		fmt.Println("B queued", l, g)
		cancel()
		services.StopAndAwaitTerminated(context.Background(), a)
		services.StopAndAwaitTerminated(context.Background(), b)
	})
}
