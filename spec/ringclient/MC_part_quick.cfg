\* partition ring: 3 partitions in every state / state time, LRU cache of capacity 2 over 2 identifiers x 2 sizes,
\* look-back queries at any time in any order, one update of any kind (incl. owners only)
CONSTANTS
  Part = {1, 2, 3}
  Owners = {1}
  PIdent = {1, 2}
  PSizes = {1, 2}
  PLookbacks = {1}
  PTimes = {2, 3, 4, 5}
  Capacity = 2
  PMaxUpd = 1
  PStates = {"PENDING", "ACTIVE", "INACTIVE"}
  PStamps = {2, 3}
  PToks = {0, 1}
  PCompute <- MCPCompute
  PInitDescs <- MCPInitDescs
INIT PInit
NEXT PNext
INVARIANTS PTypeOK PUnobservable
