package c20

import (
	"encoding/json"
	"fmt"
	"reflect"
	"testing"

	"verifharness/internal/abs"

	"github.com/grafana/dskit/tenant"
	"github.com/grafana/dskit/user"
)

// expected result of one operator, as printed by Tenant.tla (Proj)
type expRes struct {
	Ok  bool            `json:"ok"`
	Err string          `json:"err"`
	Bad int             `json:"bad"`
	Val json.RawMessage `json:"val"`
}

type expGet struct {
	Key   []int `json:"key"`
	Found bool  `json:"found"`
	Val   []int `json:"val"`
}

type expSet struct {
	Key []int `json:"key"`
	Val []int `json:"val"`
	Out []int `json:"out"`
}

type expMetaOps struct {
	Pairs  [][][]int `json:"pairs"`
	Divide [][]int   `json:"divide"`
	Gets   []expGet  `json:"gets"`
	Sets   []expSet  `json:"sets"`
}

type tenantCase struct {
	Fam       string     `json:"fam"`
	Has       bool       `json:"has"`
	In        []int      `json:"in"`
	Valid     string     `json:"valid"`
	ValidBad  int        `json:"validbad"`
	Trim      []int      `json:"trim"`
	Parts     [][]int    `json:"parts"`
	Normalize [][]int    `json:"normalize"`
	Single    expRes     `json:"single"`
	Multi     expRes     `json:"multi"`
	WithMeta  expRes     `json:"withmeta"`
	HTTP      expRes     `json:"http"`
	ValidMeta string     `json:"validmeta"`
	ParseMeta string     `json:"parsemeta"`
	MetaBad   int        `json:"metabad"`
	WMOps     expMetaOps `json:"wmops"`
}

// brief is the case as stored in mismatches / samples (long inputs are kept whole: they are the repro).
func (c *tenantCase) brief() map[string]any {
	return map[string]any{"fam": c.Fam, "has": c.Has, "in": c.In, "in_quoted": fmt.Sprintf("%q", b2s(c.In))}
}

type cmp struct {
	res *abs.Result
	c   *tenantCase
}

func (k cmp) fail(op, wantClass, gotClass string, got, want any) {
	if wantClass == gotClass {
		gotClass += " (other value / other byte named)"
	}
	k.res.Mismatch(abs.Mismatch{
		Sig:  fmt.Sprintf("tenant:%s want=%s got=%s", op, wantClass, gotClass),
		Case: k.c.brief(), Got: got, Want: want, Note: op,
	})
}

func (k cmp) str(op string, got observed, want expRes) {
	var wv []int
	if want.Ok {
		_ = json.Unmarshal(want.Val, &wv)
	}
	same := got.Ok == want.Ok && got.Err == want.Err && got.Bad == want.Bad
	if same && want.Ok {
		same = reflect.DeepEqual(got.Val, append([]int{}, wv...))
	}
	if !same {
		k.fail(op, want.Err, got.Err, got, want)
	}
}

func (k cmp) list(op string, got observed, want expRes) {
	var wv [][]int
	if want.Ok {
		_ = json.Unmarshal(want.Val, &wv)
	}
	same := got.Ok == want.Ok && got.Err == want.Err && got.Bad == want.Bad
	if same && want.Ok {
		gv, _ := got.Val.([][]int)
		same = eqStrs(bb2ss(gv), bb2ss(wv))
	}
	if !same {
		k.fail(op, want.Err, got.Err, got, want)
	}
}

func (k cmp) wm(op string, got observed, want expRes) {
	var wv wmVal
	if want.Ok {
		_ = json.Unmarshal(want.Val, &wv)
	}
	same := got.Ok == want.Ok && got.Err == want.Err && got.Bad == want.Bad
	if same && want.Ok {
		gv, _ := got.Val.(wmVal)
		same = b2s(gv.Tenant) == b2s(wv.Tenant) && b2s(gv.Meta) == b2s(wv.Meta)
	}
	if !same {
		k.fail(op, want.Err, got.Err, got, want)
	}
}

func (k cmp) class(op string, err error, wantClass string, wantBad int) {
	g, bad := classify(err)
	if g != wantClass || bad != wantBad {
		k.fail(op, wantClass, g, map[string]any{"err": g, "bad": bad, "msg": fmt.Sprint(err)}, map[string]any{"err": wantClass, "bad": wantBad})
	}
}

func (k cmp) eq(op string, got, want string) {
	if got != want {
		k.fail(op, "value", "other-value", s2b(got), s2b(want))
	}
}

// replayTenantCase feeds one organisation id to every exported entry point of package tenant.
func replayTenantCase(res *abs.Result, c *tenantCase) {
	k := cmp{res, c}
	s := b2s(c.In)

	// ValidTenantID, TrimMetadata on the raw string
	k.class("ValidTenantID", tenant.ValidTenantID(s), c.Valid, c.ValidBad)
	k.eq("TrimMetadata", tenant.TrimMetadata(s), b2s(c.Trim))

	// JoinTenantIDs / NormalizeTenantIDs on the specification's parts (not trimmed, not validated)
	parts := bb2ss(c.Parts)
	k.eq("JoinTenantIDs", tenant.JoinTenantIDs(parts), s)
	norm := tenant.NormalizeTenantIDs(append([]string{}, parts...))
	if !eqStrs(norm, bb2ss(c.Normalize)) {
		k.fail("NormalizeTenantIDs", "value", "other-value", ss2b(norm), c.Normalize)
	}

	// resolvers through a context carrying the organisation id
	ctx := ctxFor(c.Has, s)
	id, err := tenant.TenantID(ctx)
	k.str("TenantID", obsStr(id, err), c.Single)
	ids, err := tenant.TenantIDs(ctx)
	k.list("TenantIDs", obsList(ids, err), c.Multi)
	t, m, err := tenant.ExtractWithMetadata(ctx)
	k.wm("ExtractWithMetadata", obsWM(t, m, err), c.WithMeta)
	mr := tenant.NewMultiResolver()
	id, err = mr.TenantID(ctx)
	k.str("MultiResolver.TenantID", obsStr(id, err), c.Single)
	ids, err = mr.TenantIDs(ctx)
	k.list("MultiResolver.TenantIDs", obsList(ids, err), c.Multi)
	if c.Has {
		ids, err = tenant.TenantIDsFromOrgID(s)
		k.list("TenantIDsFromOrgID", obsList(ids, err), c.Multi)
		t2, m2, err2 := tenant.ParseWithMetadata(s)
		k.wm("ParseWithMetadata", obsWM(t2, m2, err2), c.WithMeta)
	}

	// ExtractTenantIDFromHTTPRequest
	req := httpReqFor(c.Has, s)
	id, hctx, err := tenant.ExtractTenantIDFromHTTPRequest(req)
	k.str("ExtractTenantIDFromHTTPRequest", obsStr(id, err), c.HTTP)
	if err == nil {
		if got, e2 := user.ExtractOrgID(hctx); e2 != nil || got != s {
			k.fail("ExtractTenantIDFromHTTPRequest.ctx", "org id unchanged", "changed", s2b(got), c.In)
		}
	}

	// ValidMetadata / ParseMetadata on the raw string
	k.class("ValidMetadata", tenant.ValidMetadata(s), c.ValidMeta, func() int {
		if c.ValidMeta == "meta_unsupported_char" {
			return c.MetaBad
		}
		return -1
	}())
	pm, err := tenant.ParseMetadata(s)
	k.class("ParseMetadata", err, c.ParseMeta, c.MetaBad)
	if err == nil {
		k.eq("ParseMetadata.Encode", pm.Encode(), s)
	} else if !pm.IsEmpty() {
		k.fail("ParseMetadata.onerror", "empty", "non-empty", s2b(pm.Encode()), []int{})
	}

	// Metadata methods on the metadata ExtractWithMetadata returned
	if len(c.WMOps.Sets) > 0 && c.WithMeta.Ok && err2nil(tenant.ExtractWithMetadata(ctx)) {
		var wv wmVal
		_ = json.Unmarshal(c.WithMeta.Val, &wv)
		_, m, _ := tenant.ExtractWithMetadata(ctx)
		k.eq("Metadata.Encode", m.Encode(), b2s(wv.Meta))
		k.eq("Metadata.WithTenant", m.WithTenant(b2s(wv.Tenant)), b2s(wv.Tenant)+b2s(wv.Meta))
		if m.IsEmpty() != (len(wv.Meta) == 0) {
			k.fail("Metadata.IsEmpty", fmt.Sprint(len(wv.Meta) == 0), fmt.Sprint(m.IsEmpty()), m.IsEmpty(), len(wv.Meta) == 0)
		}
		gp := pairsOf(m)
		samePairs := len(gp) == len(c.WMOps.Pairs)
		for i := 0; samePairs && i < len(gp); i++ {
			samePairs = len(c.WMOps.Pairs[i]) == 2 && gp[i][0] == b2s(c.WMOps.Pairs[i][0]) && gp[i][1] == b2s(c.WMOps.Pairs[i][1])
		}
		if !samePairs {
			k.fail("Metadata.Iter", "pairs", "other-pairs", gp, c.WMOps.Pairs)
		}
		if gd := divideOf(m); !eqStrs(gd, bb2ss(c.WMOps.Divide)) {
			k.fail("Metadata.Divide", "items", "other-items", ss2b(gd), c.WMOps.Divide)
		}
		for _, g := range c.WMOps.Gets {
			v, found := m.Get(b2s(g.Key))
			if found != g.Found || v != b2s(g.Val) || m.Has(b2s(g.Key)) != g.Found {
				k.fail("Metadata.Get", fmt.Sprint(g.Found), fmt.Sprint(found), map[string]any{"found": found, "val": s2b(v)}, g)
			}
		}
		for _, st := range c.WMOps.Sets {
			w := m.With(b2s(st.Key), b2s(st.Val))
			if w.Encode() != b2s(st.Out) {
				k.fail("Metadata.With", "value", "other-value", s2b(w.Encode()), st)
			}
			if m.Encode() != b2s(wv.Meta) {
				k.fail("Metadata.With.receiver", "unchanged", "changed", s2b(m.Encode()), wv.Meta)
			}
			cp := m
			cp.Set(b2s(st.Key), b2s(st.Val))
			if cp.Encode() != b2s(st.Out) {
				k.fail("Metadata.Set", "value", "other-value", s2b(cp.Encode()), st)
			}
		}
		// NewMetadata is the unchecked constructor: round trip
		k.eq("NewMetadata.Encode", tenant.NewMetadata(b2s(wv.Meta)).Encode(), b2s(wv.Meta))
	}
}

func err2nil(_ string, _ tenant.Metadata, err error) bool { return err == nil }

// TestReplayTenant: spec -> code over the universe Tenant.tla enumerated ($VERIF_IN).
// VERIF_CORRUPT=n perturbs the expected outcome of the n-th case (binding self-test).
func TestReplayTenant(t *testing.T) {
	in := envFor("VERIF_IN", "TENANT")
	if in == "" {
		t.Skip("VERIF_IN not set")
	}
	corrupt := envIntFor("VERIF_CORRUPT", "TENANT")
	res := &abs.Result{}
	fams := map[string]int{}
	accepted := map[string]int{}
	err := abs.ReadNDJSON(in, func(line []byte) error {
		var c tenantCase
		if err := json.Unmarshal(line, &c); err != nil {
			return err
		}
		res.Cases++
		fams[c.Fam]++
		if corrupt > 0 && res.Cases == corrupt {
			// flip the expected class of the single-tenant resolver
			if c.Single.Ok {
				c.Single.Ok, c.Single.Err = false, "too_many"
			} else {
				c.Single.Err = "corrupted"
			}
		}
		if p := guard(func() { replayTenantCase(res, &c) }); p != "" {
			res.Mismatch(abs.Mismatch{Sig: "tenant:panic", Case: c.brief(), Got: p, Want: "no panic"})
		}
		// non-trivial: the resolvers did something else than hand the input back as the tenant id
		var sv []int
		if c.Single.Ok {
			_ = json.Unmarshal(c.Single.Val, &sv)
		}
		if !(c.Single.Ok && b2s(sv) == b2s(c.In)) {
			res.Nontrivial++
		}
		accepted["single_"+c.Single.Err]++
		accepted["multi_"+c.Multi.Err]++
		accepted["withmeta_"+c.WithMeta.Err]++
		if res.Cases%4999 == 1 {
			res.Sample(map[string]any{"in": fmt.Sprintf("%q", b2s(c.In)), "single": c.Single.Err, "multi": c.Multi.Err, "withmeta": c.WithMeta.Err})
		}
		return nil
	})
	if err != nil {
		res.Fatal = err.Error()
	}
	res.AddExtra("tenant_cases_by_family", fams)
	res.AddExtra("tenant_outcomes", accepted)
	writeResult(t, res, "tenant_replay")
}

// TestReplayMetaMisuse: the Set transitions of MetadataMisuse.tla (validated and unvalidated
// arguments) on the real Metadata.With: the result is the specification's, and ParseMetadata judges
// it well-formed exactly when the specification does (observation: the unvalidated mutator can
// break the invariant documented on the type).
func TestReplayMetaMisuse(t *testing.T) {
	in := envFor("VERIF_IN", "MISUSE")
	if in == "" {
		t.Skip("VERIF_IN_MISUSE not set")
	}
	type tr struct {
		M          []int  `json:"m"`
		Key        []int  `json:"key"`
		Val        []int  `json:"val"`
		Out        []int  `json:"out"`
		WellFormed bool   `json:"wellformed"`
		Err        string `json:"err"`
	}
	res := &abs.Result{}
	brokenN := 0
	err := abs.ReadNDJSON(in, func(line []byte) error {
		var c tr
		if err := json.Unmarshal(line, &c); err != nil {
			return err
		}
		res.Cases++
		p := guard(func() {
			m, err := tenant.ParseMetadata(b2s(c.M))
			if err != nil {
				res.Mismatch(abs.Mismatch{Sig: "metamisuse:source state not well-formed", Case: c, Got: err.Error(), Want: "ok"})
				return
			}
			out := m.With(b2s(c.Key), b2s(c.Val)).Encode()
			if out != b2s(c.Out) {
				res.Mismatch(abs.Mismatch{Sig: "metamisuse:With result differs", Case: c, Got: s2b(out), Want: c.Out})
			}
			_, perr := tenant.ParseMetadata(out)
			cls, _ := classify(perr)
			if (perr == nil) != c.WellFormed || cls != c.Err {
				res.Mismatch(abs.Mismatch{Sig: fmt.Sprintf("metamisuse:ParseMetadata(With(..)) want=%s got=%s", c.Err, cls), Case: c, Got: cls, Want: c.Err})
			}
		})
		if p != "" {
			res.Mismatch(abs.Mismatch{Sig: "metamisuse:panic", Case: c, Got: p, Want: "no panic"})
		}
		if !c.WellFormed {
			brokenN++
			res.Nontrivial++
		}
		if res.Cases%499 == 1 {
			res.Sample(c)
		}
		return nil
	})
	if err != nil {
		res.Fatal = err.Error()
	}
	res.AddExtra("metadata_set_results_breaking_the_documented_invariant", brokenN)
	writeResult(t, res, "metamisuse_replay")
}
