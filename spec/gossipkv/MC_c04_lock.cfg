\* C04 with state-change locks: 2 nodes, one lockable partition, clock 0..2, retention 1 s, 3 CAS
\* (heartbeat / state change / removal / lock toggle on any node), every packet ever gossiped deliverable forever.
CONSTANTS
  N = 2
  NI = 1
  NK = 1
  MaxClock = 2
  Retention = 1
  T = 1
  MaxCas = 3
  MaxFaults = 0
  LiveStates = {"ACTIVE"}
  WatchNodes = {1, 2}
  HoldNodes = {}
  AllowRestart = FALSE
  AllowGarbage = FALSE
  AllowPartition = FALSE
  AllowJunkPP = FALSE
  GateNodes = {}
  InboxCap = 1
  VersionTest = TRUE
  KeyTest = TRUE
  MaxDel = 0
  ObsoleteTimeout = 1
  LockKeys = {1}
  ConsumeNet = FALSE
  Ideal = TRUE
  Ghost = TRUE
  Record = FALSE
  Quiesce = FALSE
  RunDepth = 0
  QRounds = 2
SPECIFICATION Spec
VIEW view
INVARIANTS TypeOK TombstonesInvisible InvalidationSafe NoInventedContent SentIsWritten WatcherNeverStale PrefixWatcherNeverStale VersionCountsChanges
PROPERTIES TombstonesForwarded NoResurrection GCOnlyExpired NoExpiredTombstoneStored OnlyChangesForwarded DeletedStaysDeleted RemovedOnlyWhenObsolete DeletedNotRevived
CHECK_DEADLOCK FALSE
