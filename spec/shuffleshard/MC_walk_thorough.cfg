CONSTANTS
  N = 5
  MaxTok = 2
  MaxM = 6
  Z = 2
  MaxSize = 6
  MaxEvents = 0
  ZaModes = {TRUE, FALSE}
  FullMem = TRUE
  MaxRO0 = 5
INIT Init
NEXT Next
VIEW View
INVARIANTS TypeOK SizeFormula NoReadOnlyMembers Monotone Consistency LookbackSuperset
CHECK_DEADLOCK FALSE
