\* C03 instance ring, thorough: all pairs of two-id descriptors, shared pool, pair laws
CONSTANTS
  N = 2
  M = 2
  Shared = TRUE
  TsSet = {1, 2}
  LiveSt = {"ACTIVE", "LEAVING"}
  Arity = 2
  EmitConv = FALSE
INIT Init
NEXT Next
INVARIANTS PairLaws TripleLaws RawLaws EmitConvergence
CHECK_DEADLOCK FALSE
