// Package c20 binds spec/tenant/Tenant.tla and spec/tenant/Propagation.tla to dskit's tenant,
// user and middleware packages (C20).
//
//	TestReplayTenant       spec -> code: every organisation id TLC enumerated goes through every
//	                       exported entry point of package tenant; value / error class are compared
//	                       with the operators' outcomes TLC printed.
//	TestRecordTenant       code -> spec: a seeded generator mutates valid multi-tenant headers at byte
//	                       level and logs (input bytes, outputs); TenantTrace.tla recomputes them.
//	TestReplayPropagation  spec -> code: TLC's hop sequences through the real inject/extract
//	                       functions and the auth middlewares (propagation_test.go).
//
// Bytes travel as arrays of small integers, never as JSON strings, so NUL and high bytes survive.
package c20

import (
	"context"
	"errors"
	"fmt"
	"net/http"
	"os"
	"path/filepath"
	"strconv"
	"strings"
	"testing"
	"unicode/utf8"

	"verifharness/internal/abs"

	"github.com/grafana/dskit/tenant"
	"github.com/grafana/dskit/user"
)

func b2s(b []int) string {
	out := make([]byte, len(b))
	for i, v := range b {
		out[i] = byte(v)
	}
	return string(out)
}

func s2b(s string) []int {
	out := make([]int, len(s))
	for i := 0; i < len(s); i++ {
		out[i] = int(s[i])
	}
	return out
}

func ss2b(ss []string) [][]int {
	out := make([][]int, len(ss))
	for i, s := range ss {
		out[i] = s2b(s)
	}
	return out
}

func bb2ss(bb [][]int) []string {
	out := make([]string, len(bb))
	for i, b := range bb {
		out[i] = b2s(b)
	}
	return out
}

func eqStrs(a, b []string) bool {
	if len(a) != len(b) {
		return false
	}
	for i := range a {
		if a[i] != b[i] {
			return false
		}
	}
	return true
}

// lastQuotedRune returns the rune between the last pair of single quotes of a message that ends
// with '<c>' (the byte an "unsupported character" error names), or -1.
func lastQuotedRune(msg string) int {
	if !strings.HasSuffix(msg, "'") {
		return -1
	}
	body := msg[:len(msg)-1]
	r, n := utf8.DecodeLastRuneInString(body)
	if n == 0 || !strings.HasSuffix(body[:len(body)-n], "'") {
		return -1
	}
	if r == utf8.RuneError && n == 1 {
		return int(body[len(body)-1])
	}
	return int(r)
}

// classify maps an error of package tenant / user to the specification's error class and, for the
// "unsupported character" classes, the byte the error names.
func classify(err error) (string, int) {
	if err == nil {
		return "ok", -1
	}
	switch {
	case errors.Is(err, user.ErrNoOrgID):
		return "no_org_id", -1
	case errors.Is(err, user.ErrTooManyOrgIDs):
		return "too_many", -1
	case errors.Is(err, user.ErrDifferentOrgIDPresent):
		return "different_org_id", -1
	}
	msg := err.Error()
	switch {
	case strings.HasPrefix(msg, "tenant ID is too long"):
		return "too_long", -1
	case msg == "tenant ID is '.' or '..'":
		return "unsafe", -1
	case strings.HasPrefix(msg, "tenant ID '") && strings.Contains(msg, "' contains unsupported character '"):
		return "unsupported_char", lastQuotedRune(msg)
	case strings.HasPrefix(msg, "metadata '") && strings.Contains(msg, "' contains unsupported character '"):
		return "meta_unsupported_char", lastQuotedRune(msg)
	case strings.HasPrefix(msg, "metadata too long"):
		return "meta_too_long", -1
	case strings.HasPrefix(msg, "malformed tenant metadata"):
		switch {
		case strings.HasSuffix(msg, "(missing ':' at start)"):
			return "meta_no_leading_colon", -1
		case strings.Contains(msg, "(no key-value separator '='"):
			return "meta_no_kv_separator", -1
		case strings.HasSuffix(msg, "(keys must be unique and sorted)"):
			return "meta_unsorted_keys", -1
		}
	}
	return "other: " + msg, -1
}

// observed is what one call of the real code answered, in the specification's vocabulary.
type observed struct {
	Ok  bool   `json:"ok"`
	Err string `json:"err"`
	Bad int    `json:"bad"`
	Val any    `json:"val"`
}

type wmVal struct {
	Tenant []int `json:"tenant"`
	Meta   []int `json:"meta"`
}

func obsStr(v string, err error) observed {
	c, bad := classify(err)
	if err != nil {
		return observed{Ok: false, Err: c, Bad: bad, Val: []int{}}
	}
	return observed{Ok: true, Err: "ok", Bad: -1, Val: s2b(v)}
}

func obsList(v []string, err error) observed {
	c, bad := classify(err)
	if err != nil {
		return observed{Ok: false, Err: c, Bad: bad, Val: []int{}}
	}
	return observed{Ok: true, Err: "ok", Bad: -1, Val: ss2b(v)}
}

func obsWM(t string, m tenant.Metadata, err error) observed {
	c, bad := classify(err)
	if err != nil {
		return observed{Ok: false, Err: c, Bad: bad, Val: []int{}}
	}
	return observed{Ok: true, Err: "ok", Bad: -1, Val: wmVal{Tenant: s2b(t), Meta: s2b(m.Encode())}}
}

func ctxFor(has bool, s string) context.Context {
	if !has {
		return context.Background()
	}
	return user.InjectOrgID(context.Background(), s)
}

func httpReqFor(has bool, s string) *http.Request {
	req, _ := http.NewRequest("GET", "http://verif.invalid/", nil)
	if has {
		req.Header.Set(user.OrgIDHeaderName, s)
	}
	return req
}

func pairsOf(m tenant.Metadata) [][2]string {
	out := [][2]string{}
	for k, v := range m.Iter() {
		out = append(out, [2]string{k, v})
	}
	return out
}

func divideOf(m tenant.Metadata) []string {
	out := []string{}
	for d := range m.Divide() {
		out = append(out, d.Encode())
	}
	return out
}

// guard runs f and turns a panic of the code under test into an error string.
func guard(f func()) (panicked string) {
	defer func() {
		if r := recover(); r != nil {
			panicked = fmt.Sprint(r)
		}
	}()
	f()
	return ""
}

// envFor returns $<NAME>_<KIND> if set, else $<NAME>: the three drivers of this package can run in
// one `go test` invocation (one link step) with their own inputs, or alone with the generic names.
func envFor(name, kind string) string {
	if v := os.Getenv(name + "_" + kind); v != "" {
		return v
	}
	return os.Getenv(name)
}

func envIntFor(name, kind string) int {
	v, err := strconv.Atoi(envFor(name, kind))
	if err != nil {
		return 0
	}
	return v
}

// writeResult writes the driver's result to $VERIF_OUT_DIR/<kind>.json if set, else to $VERIF_OUT.
func writeResult(t *testing.T, res *abs.Result, kind string) {
	if d := os.Getenv("VERIF_OUT_DIR"); d != "" {
		t.Setenv("VERIF_OUT", filepath.Join(d, kind+".json"))
	}
	res.Write(t)
}
