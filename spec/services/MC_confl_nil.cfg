CONSTANTS
  NC = 2
  NL = 1
  WRun = {}
  WTerm = {}
  QCap = 4
  MaxIters = 2
  MaxStart = 1
  ParentCancels = TRUE
  Presents = {{}, {"run"}, {"start","stop"}, {"start","run"}}
  RunModes = {"any", "idle", "timer"}
  GuardNilCancel = FALSE
INIT CInit
NEXT CNext
INVARIANTS Confluent IntEnExact
CHECK_DEADLOCK FALSE
