#!/usr/bin/env python3
import json, subprocess, sys, glob, os
pid=sys.argv[1]; tag='b'; n='3'
props={json.loads(l)['id']:json.loads(l) for l in open('/verif/properties.jsonl')}
p=props[pid]
wt='/tmp/mut_%s_%s'%(pid.lower(),tag)
subprocess.run(['git','-C','/repo','worktree','add','--detach',wt,'HEAD'],check=True,capture_output=True)
t=open('/verif/.prompts/mutant_tmpl.txt').read()
out=t.format(wt=wt,pid=pid,title=p['title'],statement=p['statement'],quant=p['quantifier']['text'],files=', '.join(p['anchors']['files']),n=n)
prev=[]
for d in sorted(glob.glob('/verif/seeded/%s-a*'%pid)):
    try:
        r=open(os.path.join(d,'README.md')).read().strip().splitlines()
        prev.append('  - '+r[0].lstrip('# ').strip()[:200])
    except Exception: pass
out+='''
ALREADY TRIED BY OTHERS for this property (do NOT repeat these or trivial variants of them; go for different clauses, different code sites, and especially for defects that need an interaction between two components, a particular interleaving or fault timing, or a particular multi-step history):
%s

PRACTICAL NOTES. The machine is shared with other jobs and can be slow: the full `go test ./ring/` takes 3-15 minutes - always pass `-timeout 60m`, run it once per mutant at the end rather than repeatedly, and use `-run <regex>` subsets while iterating. A few wall-clock-sensitive existing tests (e.g. TestCheckReady*, TestLifecycler_*, *_StartMinimumRequests_*, TestWatchKey*, TestPartitionInstanceLifecycler) can fail under load even on the unchanged tree: if one fails, re-run that test alone (`-run '^TestName$' -count=3`) with and without your change before concluding anything. `signal: terminated/killed` is infrastructure trouble: re-run. Never use pkill/killall.
''' % ('\n'.join(prev) or '  (none)')
print(out)
