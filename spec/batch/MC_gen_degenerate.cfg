CONSTANTS
  MinKeys = 1
  MaxKeys = 2
  NI = 2
  MaxRF = 2
  Shape = "degenerate"
  Grain = "call"
  Gate = TRUE
  EmptyFix = TRUE
  AllowCancel = TRUE
  EarlyExits = FALSE
  MaxConc = 3
  Spawn = "go"
  Record = TRUE
SPECIFICATION Spec
INVARIANTS TypeOK SingleSend ReturnsOnce CalledExactly CleanupOnceAfterAll Emit
CHECK_DEADLOCK TRUE
