------------------------------- MODULE TokenGen -------------------------------
(***************************************************************************)
(* C16 - the TokenGenerator contract of grafana/dskit (token_generator.go, *)
(* spread_minimizing_token_generator.go in package ring), the reserves of  *)
(* the spread-minimising generator as a function of (instance index, zone  *)
(* index), the partition ring built from them (partition_ring_model.go,    *)
(* AddPartition) and a cluster that grows by calling GenerateTokens with   *)
(* "all tokens currently in the ring" as the taken set.                    *)
(*                                                                         *)
(* A token is a pair of limbs <<hi, lo>> (value hi*LoCard + lo); the order *)
(* is lexicographic.  In the real system HiCard = LoCard = 2^16, MaxZ = 8, *)
(* R = 512; no 32-bit number ever occurs.  Because MaxZ divides LoCard the *)
(* residue of a token modulo MaxZ is lo % MaxZ.  The exhaustive configs    *)
(* use a space of 8..12 tokens with the same structure.                    *)
(*                                                                         *)
(* The module is used twice:                                               *)
(*  - MC_*.cfg: Init chooses every family of reserves that satisfies the   *)
(*    construction guarantees, Next runs every call / join / loss /        *)
(*    partition step; TLC decides the per-call clauses (action properties  *)
(*    Step_...) and the system invariants.                                 *)
(*  - TokenGenTrace.tla: the same actions, with arguments AND results      *)
(*    bound to what the real code did; the same clauses are invariants on  *)
(*    the observation variable `last`.                                     *)
(***************************************************************************)
EXTENDS Integers, Sequences, FiniteSets, TLC

CONSTANTS HiCard, LoCard,   \* limb cardinalities
          MaxZ,             \* maximum zone count (8)
          R,                \* tokens reserved per (instance, zone) (512)
          MaxInst,          \* model: instance indexes 0..MaxInst
          NZ,               \* model: zone indexes 0..NZ-1
          MaxReq,           \* model: requested counts -1..MaxReq
          Foreign           \* model: members that use the random generator

ASSUME /\ HiCard \in Nat \ {0} /\ LoCard \in Nat \ {0} /\ MaxZ \in Nat \ {0} /\ R \in Nat \ {0}
       /\ LoCard % MaxZ = 0
       /\ NZ <= MaxZ

VARIABLES reserve,  \* <<inst, zone>> -> reserve of that generator (sorted sequence of R tokens), as far as known
          ring,     \* member -> [gen, toks]: the token ring of the cluster
          parts,    \* partition id -> token sequence stored by AddPartition
          shrunk,   \* some member has lost tokens or left since the ring was empty
          last      \* observation of the latest step (history variable, not in the VIEW)

vars == <<reserve, ring, parts, shrunk, last>>
view == <<reserve, ring, parts, shrunk>>

-----------------------------------------------------------------------------
(* Tokens *)
Tok       == (0..(HiCard-1)) \X (0..(LoCard-1))
IsTok(t)  == /\ t[1] \in 0..(HiCard-1) /\ t[2] \in 0..(LoCard-1)
Lt(a, b)  == a[1] < b[1] \/ (a[1] = b[1] /\ a[2] < b[2])
Cong(t)   == t[2] % MaxZ                     \* token value modulo MaxZ
Range(s)  == {s[k] : k \in DOMAIN s}
Sorted(s) == \A k \in 1..(Len(s)-1) : Lt(s[k], s[k+1])      \* strictly: sorted and duplicate-free
Min(a, b) == IF a < b THEN a ELSE b
Want(req) == IF req > 0 THEN req ELSE 0
(* n <= HiCard*LoCard, without computing the product (2^32 in the real system) *)
SpaceHasAtLeast(n) == n <= 0 \/ ((n-1) \div LoCard) < HiCard

(* Generators.  A spread-minimising generator is determined by (inst, zone) - that is the claim. *)
RandomGen         == [kind |-> "random", inst |-> -1, zone |-> -1, cj |-> FALSE]
SpreadGen(i,z,cj) == [kind |-> "spread", inst |-> i, zone |-> z, cj |-> cj]
Key(g)            == <<g.inst, g.zone>>
NoMember          == "nomember"
None              == [ev |-> "none"]

AllTokens(rg) == UNION {rg[m].toks : m \in DOMAIN rg}

(* The first n members of the sorted sequence res that are not in taken, in order. *)
FirstFree(res, n, taken) ==
  LET free == SelectSeq(res, LAMBDA t : t \notin taken)
  IN  SubSeq(free, 1, Min(n, Len(free)))

-----------------------------------------------------------------------------
(* Clauses of the TokenGenerator contract, over one observed call                 *)
(*   c = [ev |-> "call", gen, req, taken (set), out (sequence), panic, member].   *)
IsCall(c)   == c.ev = "call"
IsSpread(c) == c.gen.kind = "spread" /\ Key(c.gen) \in DOMAIN reserve
Res(c)      == reserve[Key(c.gen)]

C_NoPanic(c)      == IsCall(c) => ~c.panic
C_InSpace(c)      == IsCall(c) => \A t \in Range(c.out) : IsTok(t)
C_NoTaken(c)      == IsCall(c) => Range(c.out) \cap c.taken = {}
C_SortedUnique(c) == IsCall(c) => Sorted(c.out)
C_AtMost(c)       == IsCall(c) => Len(c.out) <= Want(c.req)
(* random generator: the whole space is its reserve *)
C_RandomCount(c)  == (IsCall(c) /\ c.gen.kind = "random" /\ ~c.panic
                      /\ SpaceHasAtLeast(Cardinality(c.taken) + Want(c.req)))
                     => Len(c.out) = Want(c.req)
(* spread-minimising generator: the first free tokens of its own reserve *)
C_SpreadFromReserve(c) == (IsCall(c) /\ IsSpread(c)) => Range(c.out) \subseteq Range(Res(c))
C_SpreadCount(c)       == (IsCall(c) /\ IsSpread(c) /\ ~c.panic)
                          => Len(c.out) = Min(Want(c.req), Cardinality(Range(Res(c)) \ c.taken))
C_SpreadLowestFirst(c) == (IsCall(c) /\ IsSpread(c))
                          => \A t \in Range(Res(c)) \ (c.taken \cup Range(c.out)) :
                               \A u \in Range(c.out) : Lt(u, t)
C_SpreadExact(c)       == (IsCall(c) /\ IsSpread(c) /\ ~c.panic)
                          => c.out = FirstFree(Res(c), Want(c.req), c.taken)
C_ZoneCongruentOut(c)  == (IsCall(c) /\ c.gen.kind = "spread")
                          => \A t \in Range(c.out) : Cong(t) = c.gen.zone

(* CanJoin / CanJoinEnabled:  c = [ev |-> "canjoin", gen, prevPresent, prevHasTokens, enabled, ok] *)
CanJoinSpec(g, prevPresent, prevHasTokens) ==
  \/ g.kind = "random" \/ ~g.cj \/ g.inst = 0
  \/ (prevPresent /\ prevHasTokens)
C_CanJoin(c)        == c.ev = "canjoin" => c.ok = CanJoinSpec(c.gen, c.prevPresent, c.prevHasTokens)
C_CanJoinEnabled(c) == c.ev = "canjoin" => c.enabled = (c.gen.kind = "spread" /\ c.gen.cj)

(* Observation of a whole reserve: c = [ev |-> "observe", via, inst, zone, toks (sequence)].      *)
(* via = "direct" (GenerateTokens(R, {})), "bylarger" (what the computation of a generator with a *)
(* larger index attributes to inst; order not significant), "partition" (AddPartition).           *)
IsObs(c) == c.ev = "observe"
C_Reproducible(c) == IsObs(c) => /\ Len(c.toks) = R
                                 /\ Range(c.toks) = Range(reserve[<<c.inst, c.zone>>])
                                 /\ c.via # "bylarger" => c.toks = reserve[<<c.inst, c.zone>>]
(* incremental form of ReservesDisjoint: the reserve just observed against all others *)
C_DisjointStep(c) == IsObs(c) => \A k \in DOMAIN reserve \ {<<c.inst, c.zone>>} :
                                    Range(reserve[k]) \cap Range(c.toks) = {}

-----------------------------------------------------------------------------
(* History invariants over everything observed so far *)
ReserveShape == \A k \in DOMAIN reserve :
                  /\ Len(reserve[k]) = R /\ Sorted(reserve[k])
                  /\ \A t \in Range(reserve[k]) : IsTok(t)
ZoneCongruent == \A k \in DOMAIN reserve : \A t \in Range(reserve[k]) : Cong(t) = k[2]
ReservesDisjoint == \A k1, k2 \in DOMAIN reserve :
                      k1 # k2 => Range(reserve[k1]) \cap Range(reserve[k2]) = {}
(* tokens of different zones never coincide: already a consequence of the congruence *)
ZonesDisjointByCongruence ==
  ZoneCongruent => \A k1, k2 \in DOMAIN reserve :
                      (k1[2] # k2[2] /\ k1[2] \in 0..(MaxZ-1) /\ k2[2] \in 0..(MaxZ-1))
                      => Range(reserve[k1]) \cap Range(reserve[k2]) = {}

(* Partition ring: AddPartition(p) stores the reserve of generator (p, zone 0) *)
PartitionTokens == \A p \in DOMAIN parts :
                     /\ Len(parts[p]) = R /\ Sorted(parts[p])
                     /\ \A t \in Range(parts[p]) : Cong(t) = 0
                     /\ <<p, 0>> \in DOMAIN reserve => parts[p] = reserve[<<p, 0>>]
PartitionsDisjoint == \A p, q \in DOMAIN parts :
                        p # q => Range(parts[p]) \cap Range(parts[q]) = {}

(* The cluster *)
AllDistinct == \A m1, m2 \in DOMAIN ring : m1 # m2 => ring[m1].toks \cap ring[m2].toks = {}
SpreadOwnReserve == \A m \in DOMAIN ring :
                      (ring[m].gen.kind = "spread" /\ Key(ring[m].gen) \in DOMAIN reserve)
                      => ring[m].toks \subseteq Range(reserve[Key(ring[m].gen)])
RingZoneCongruent == \A m \in DOMAIN ring : ring[m].gen.kind = "spread"
                      => \A t \in ring[m].toks : Cong(t) = ring[m].gen.zone
OnlySpread(rg) == \A m \in DOMAIN rg : rg[m].gen.kind = "spread"
(* in a cluster of spread-minimising members only, nobody is ever short of tokens *)
S_NeverShort(rg, c) ==
  (IsCall(c) /\ c.member # NoMember /\ IsSpread(c) /\ ~c.panic /\ OnlySpread(rg) /\ c.taken = AllTokens(rg))
  => LET mine == IF c.member \in DOMAIN rg THEN rg[c.member].toks ELSE {}
     IN  Len(c.out) = Min(Want(c.req), R - Cardinality(mine))
(* with the CanJoin check on and nobody shrinking, the members with tokens form a prefix per zone *)
PrefixWhenGrowing ==
  ~shrunk => \A m \in DOMAIN ring :
     (ring[m].gen.kind = "spread" /\ ring[m].gen.cj /\ ring[m].gen.inst > 0 /\ ring[m].toks # {})
     => \E p \in DOMAIN ring : /\ ring[p].gen.kind = "spread"
                               /\ ring[p].gen.zone = ring[m].gen.zone
                               /\ ring[p].gen.inst = ring[m].gen.inst - 1
                               /\ ring[p].toks # {}

-----------------------------------------------------------------------------
(* Actions.  The *Obs forms record arguments and result; the guarded forms are the contract. *)

(* GenerateTokens(req, taken) was called on generator g and returned out (or panicked);     *)
(* m is the ring member that adds the result to its tokens, or NoMember.                    *)
CallObs(g, m, req, taken, out, pan) ==
  /\ last' = [ev |-> "call", gen |-> g, req |-> req, taken |-> taken, out |-> out,
              panic |-> pan, member |-> m]
  /\ ring' = IF m = NoMember THEN ring
             ELSE LET old == IF m \in DOMAIN ring THEN ring[m].toks ELSE {}
                  IN  [x \in DOMAIN ring \cup {m} |->
                         IF x = m THEN [gen |-> g, toks |-> old \cup Range(out)] ELSE ring[x]]
  /\ UNCHANGED <<reserve, parts, shrunk>>

Contract(c) == /\ C_NoPanic(c) /\ C_InSpace(c) /\ C_NoTaken(c) /\ C_SortedUnique(c) /\ C_AtMost(c)
               /\ C_RandomCount(c) /\ C_SpreadFromReserve(c) /\ C_SpreadCount(c)
               /\ C_SpreadLowestFirst(c) /\ C_SpreadExact(c) /\ C_ZoneCongruentOut(c)

(* a member joins / tops up: taken = every token in the ring (its own included) *)
JoinObs(g, m, req, out, pan) == CallObs(g, m, req, AllTokens(ring), out, pan)

LoseObs(m, S) ==
  /\ m \in DOMAIN ring /\ S \subseteq ring[m].toks
  /\ ring' = [ring EXCEPT ![m].toks = @ \ S]
  /\ shrunk' = TRUE
  /\ last' = [ev |-> "lose"]
  /\ UNCHANGED <<reserve, parts>>

LeaveObs(m) ==
  /\ m \in DOMAIN ring
  /\ ring' = [x \in DOMAIN ring \ {m} |-> ring[x]]
  /\ shrunk' = TRUE
  /\ last' = [ev |-> "leave"]
  /\ UNCHANGED <<reserve, parts>>

ObserveObs(via, i, z, toks) ==
  /\ reserve' = IF <<i, z>> \in DOMAIN reserve THEN reserve
                ELSE [k \in DOMAIN reserve \cup {<<i, z>>} |->
                        IF k = <<i, z>> THEN toks ELSE reserve[k]]
  /\ last' = [ev |-> "observe", via |-> via, inst |-> i, zone |-> z, toks |-> toks]
  /\ UNCHANGED <<ring, parts, shrunk>>

CanJoinObs(g, prevPresent, prevHasTokens, enabled, ok) ==
  /\ last' = [ev |-> "canjoin", gen |-> g, prevPresent |-> prevPresent,
              prevHasTokens |-> prevHasTokens, enabled |-> enabled, ok |-> ok]
  /\ UNCHANGED <<reserve, ring, parts, shrunk>>

AddPartitionObs(p, toks) ==
  /\ parts' = [q \in DOMAIN parts \cup {p} |-> IF q = p THEN toks ELSE parts[q]]
  /\ last' = [ev |-> "partition", id |-> p]
  /\ UNCHANGED <<reserve, ring, shrunk>>

-----------------------------------------------------------------------------
(* The exhaustive model *)
Insts     == 0..MaxInst
Zones     == 0..(NZ-1)
Keys      == Insts \X Zones
Reqs      == (-1)..MaxReq
Members   == Keys \cup Foreign
EmptyFcn  == [x \in {} |-> 0]

(* sort a small set of tokens *)
RECURSIVE SortSet(_)
SortSet(S) == IF S = {} THEN <<>>
              ELSE LET m == CHOOSE x \in S : \A y \in S : x = y \/ Lt(x, y)
                   IN  <<m>> \o SortSet(S \ {m})

(* what the construction of the spread-minimising generator guarantees *)
GoodReserves(f) ==
  /\ \A k \in Keys : \A t \in Range(f[k]) : Cong(t) = k[2]
  /\ \A k1, k2 \in Keys : k1 # k2 => Range(f[k1]) \cap Range(f[k2]) = {}

ZoneTok(z) == {t \in Tok : Cong(t) = z}

ZoneBlocks == {T \in SUBSET Tok : Cardinality(T) = R /\ \E z \in Zones : T \subseteq ZoneTok(z)}

Init ==
  /\ \E S \in [Keys -> ZoneBlocks] :
        /\ \A k \in Keys : S[k] \subseteq ZoneTok(k[2])
        /\ \A k1, k2 \in Keys : k1 # k2 => S[k1] \cap S[k2] = {}
        /\ reserve = [k \in Keys |-> SortSet(S[k])]
        /\ GoodReserves(reserve)
  /\ ring = EmptyFcn
  /\ parts = EmptyFcn
  /\ shrunk = FALSE
  /\ last = None

(* every output the contract allows.  For the spread-minimising generator the candidates are *)
(* filtered by the DECLARATIVE clauses; Step_SpreadExact then shows that they determine the  *)
(* output (= FirstFree), and FirstFreeAllowed that they are satisfiable.                     *)
CallRec(g, req, taken, out) == [ev |-> "call", gen |-> g, req |-> req, taken |-> taken, out |-> out,
                                panic |-> FALSE, member |-> NoMember]
Declarative(c) == /\ C_NoTaken(c) /\ C_SortedUnique(c) /\ C_AtMost(c) /\ C_SpreadFromReserve(c)
                  /\ C_SpreadCount(c) /\ C_SpreadLowestFirst(c)
Outputs(g, req, taken) ==
  IF g.kind = "random"
  THEN {SortSet(S) : S \in {T \in SUBSET (Tok \ taken) : Cardinality(T) = Want(req)}}
  ELSE {out \in {SortSet(S) : S \in SUBSET Range(reserve[Key(g)])} :
          Declarative(CallRec(g, req, taken, out))}

Generate(g, m, req, taken) == \E out \in Outputs(g, req, taken) : CallObs(g, m, req, taken, out, FALSE)

GenOf(m, cj) == IF m \in Foreign THEN RandomGen ELSE SpreadGen(m[1], m[2], cj)

PrevOf(g) == <<g.inst - 1, g.zone>>
PrevPresent(g)   == PrevOf(g) \in DOMAIN ring
PrevHasTokens(g) == PrevPresent(g) /\ ring[PrevOf(g)].toks # {}

(* a pure call: any generator, any requested count, ANY taken set (only from the empty ring: *)
(* the result does not depend on the ring)                                                   *)
PureCall == /\ ring = EmptyFcn /\ parts = EmptyFcn
            /\ \E m \in Members, req \in Reqs, taken \in SUBSET Tok :
                  /\ (m \in Foreign => SpaceHasAtLeast(Cardinality(taken) + Want(req)))
                  /\ Generate(GenOf(m, FALSE), NoMember, req, taken)

(* a member joins or tops up its tokens; with cj it first passes the CanJoin check *)
Join == \E m \in Members, req \in Reqs, cj \in BOOLEAN :
          LET g == GenOf(m, cj) IN
          /\ (m \in DOMAIN ring => ring[m].gen = g)
          /\ CanJoinSpec(g, PrevPresent(g), PrevHasTokens(g))
          /\ (m \in Foreign => SpaceHasAtLeast(Cardinality(AllTokens(ring)) + Want(req)))
          /\ Generate(g, m, req, AllTokens(ring))

Lose  == \E m \in DOMAIN ring : \E t \in ring[m].toks : LoseObs(m, {t})
Leave == \E m \in DOMAIN ring : LeaveObs(m)

Observe == \E k \in Keys, via \in {"direct", "bylarger", "partition"} :
              ObserveObs(via, k[1], k[2], reserve[k])

CanJoin == \E m \in Members, cj \in BOOLEAN :
             LET g == GenOf(m, cj) IN
             CanJoinObs(g, PrevPresent(g), PrevHasTokens(g), g.kind = "spread" /\ cj,
                        CanJoinSpec(g, PrevPresent(g), PrevHasTokens(g)))

AddPartition == \E p \in Insts : /\ ring = EmptyFcn
                                 /\ AddPartitionObs(p, reserve[<<p, 0>>])

Next == PureCall \/ Join \/ Lose \/ Leave \/ Observe \/ CanJoin \/ AddPartition
Spec == Init /\ [][Next]_vars

-----------------------------------------------------------------------------
(* What TLC checks on the exhaustive model.  Clauses on the latest observation are action   *)
(* properties because `last` is not in the VIEW (TLC checks implied actions on every        *)
(* transition, also into states it has already seen).                                       *)
TypeOK ==
  /\ \A k \in DOMAIN reserve : reserve[k] \in Seq(Tok)
  /\ \A m \in DOMAIN ring : ring[m].toks \subseteq Tok
  /\ shrunk \in BOOLEAN

Step_NoPanic        == [][C_NoPanic(last')]_vars
Step_InSpace        == [][C_InSpace(last')]_vars
Step_NoTaken        == [][C_NoTaken(last')]_vars
Step_SortedUnique   == [][C_SortedUnique(last')]_vars
Step_AtMost         == [][C_AtMost(last')]_vars
Step_RandomCount    == [][C_RandomCount(last')]_vars
Step_SpreadFromReserve == [][C_SpreadFromReserve(last')]_vars
Step_SpreadCount    == [][C_SpreadCount(last')]_vars
Step_SpreadLowestFirst == [][C_SpreadLowestFirst(last')]_vars
Step_SpreadExact    == [][C_SpreadExact(last')]_vars
Step_ZoneCongruentOut == [][C_ZoneCongruentOut(last')]_vars
Step_CanJoin        == [][C_CanJoin(last') /\ C_CanJoinEnabled(last')]_vars
Step_Reproducible   == [][C_Reproducible(last') /\ C_DisjointStep(last')]_vars
Step_NeverShort     == [][S_NeverShort(ring, last')]_vars
Step_ReserveFixed   == [][\A k \in DOMAIN reserve : k \in DOMAIN reserve' /\ reserve'[k] = reserve[k]]_vars
(* the declarative clauses are satisfiable: the constructive answer is among the allowed outputs *)
FirstFreeAllowed ==
  last = None => \A k \in Keys, req \in Reqs, taken \in SUBSET Tok :
                    FirstFree(reserve[k], Want(req), taken) \in Outputs(SpreadGen(k[1], k[2], FALSE), req, taken)
=============================================================================
