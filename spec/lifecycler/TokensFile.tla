----------------------------- MODULE TokensFile -----------------------------
(***************************************************************************)
(* C09, last clause - Tokens.StoreToFile writes a temporary file and       *)
(* renames it over the tokens file; an abort (process death, failpoint) at *)
(* any stage leaves the tokens file either as it was or completely new.    *)
(* Lifecycler.tla relies on exactly this: file[i] changes atomically.      *)
(*                                                                         *)
(* main : what LoadTokensFromFile would find at the final path             *)
(* tmp  : the temporary file                                               *)
(* The harness aborts the real StoreToFile at every stage (failpoints      *)
(* tokens.store.created / .written / .closed) and after each abort checks  *)
(* that the real file is in the state this specification allows.           *)
(***************************************************************************)
EXTENDS Naturals, TLC, Json

CONSTANT Direct   \* FALSE: the code's protocol (temp file + rename); TRUE: writing the final path directly (a mutant)

VARIABLES main,   \* "none" | "old" | "new" | "empty" | "partial"   (the last two are corrupt)
          tmp,    \* "none" | "empty" | "partial" | "full"
          pc,     \* "idle" | "created" | "written" | "closed" | "done" | "aborted"
          m0, t0, \* history: the files before the call
          at      \* history: the stage at which the call was aborted ("" = not aborted)

vars == <<main, tmp, pc, m0, t0, at>>

Init == main \in {"none", "old"} /\ tmp \in {"none", "full"} /\ pc = "idle"   \* a stale temp file may exist
        /\ m0 = main /\ t0 = tmp /\ at = ""

Create == /\ pc = "idle" /\ pc' = "created"
          /\ IF Direct THEN main' = "empty" /\ UNCHANGED tmp      \* os.Create truncates
             ELSE tmp' = "empty" /\ UNCHANGED main
\* the write is not atomic: a prefix may have reached the file when the process dies
WritePart == /\ pc = "created"
             /\ IF Direct THEN main' = "partial" /\ UNCHANGED tmp ELSE tmp' = "partial" /\ UNCHANGED main
             /\ UNCHANGED pc
Write == /\ pc = "created" /\ pc' = "written"
         /\ IF Direct THEN main' = "new" /\ UNCHANGED tmp ELSE tmp' = "full" /\ UNCHANGED main
Close == pc = "written" /\ pc' = "closed" /\ UNCHANGED <<main, tmp>>
Rename == /\ pc = "closed" /\ pc' = "done"
          /\ IF Direct THEN UNCHANGED <<main, tmp>> ELSE main' = "new" /\ tmp' = "none"   \* rename(2) is atomic
Abort == pc \in {"created", "written", "closed"} /\ pc' = "aborted" /\ at' = pc /\ UNCHANGED <<main, tmp, m0, t0>>

Step == (Create \/ WritePart \/ Write \/ Close \/ Rename) /\ UNCHANGED <<m0, t0, at>>
Next == Step \/ Abort
Spec == Init /\ [][Next]_vars

TypeOK == /\ main \in {"none", "old", "new", "empty", "partial"}
          /\ tmp \in {"none", "empty", "partial", "full"}
          /\ pc \in {"idle", "created", "written", "closed", "done", "aborted"}

\* whatever happens, a reader of the tokens file finds nothing, the old or the new tokens
FileNeverCorrupt == main \in {"none", "old", "new"}
\* an abort never changes what a reader finds
AbortKeepsOld == [][pc' = "aborted" => main' = main]_vars
\* and the file only ever changes to the complete new content
OnlyOldOrNew == [][main' # main => main' = "new"]_vars
Completes == pc = "done" => main = "new"

\* case emitter (gen/replay): every way the call can end, with what a reader must find afterwards
Emit == pc \in {"done", "aborted"} => PrintT(ToJson([m0 |-> m0, t0 |-> t0, at |-> at, main |-> main]))
=============================================================================
