---------------------------- MODULE QuorumReadGen ----------------------------
(***************************************************************************)
(* spec -> code: behaviours of QuorumRead as the conformance driver can    *)
(* execute them.  The driver lets the real goroutines run to quiescence    *)
(* (synctest.Wait) after every environment step, so environment actions    *)
(* are taken in quiescent states only and the specification's internal     *)
(* actions run in between.  hist records, for every environment step, the  *)
(* observation the specification demands just before it; the complete      *)
(* behaviour (with the final observation) is printed on termination.       *)
(*                                                                         *)
(* Only configurations whose real execution is deterministic under that    *)
(* discipline are generated (GenCfgOK): no request minimisation, or        *)
(* zone-aware minimisation with a supplied ZoneSorter (the order is the    *)
(* specification's choice and is handed to the driver as cfg.zorder); a    *)
(* set that is satisfied before any result (tolerance >= size) is          *)
(* excluded without minimisation because the started goroutines then race  *)
(* with the cancellation at return.  NoRace / OneInFlight state that the   *)
(* two places where a Go select may see two ready cases are not reached.   *)
(***************************************************************************)
EXTENDS QuorumRead, Json

CONSTANT GenCancel   \* FALSE: schedules without caller cancellation (-simulate otherwise cancels most walks early)

VARIABLES hist,    \* <<obs, env, obs, env, ...>>
          pend0    \* initial pendingZones (for cfg.zorder)

gvars == <<vars, hist, pend0>>

Already(c) == IF c.mode = "zone" THEN c.nz - c.tol <= 0 ELSE c.n - c.tol <= 0
GenCfgOK(c) == /\ c.minimize => c.mode = "zone"
               /\ ~c.minimize => ~Already(c)

RECURSIVE AscSeq(_)
AscSeq(S) == IF S = {} THEN <<>>
             ELSE LET m == CHOOSE x \in S : \A y \in S : x <= y IN <<m>> \o AscSeq(S \ {m})

Obs(end) == [a |-> "obs", calls |-> calls,
             ret |-> [kind |-> ret.kind, set |-> AscSeq(ret.set), cls |-> ret.cls, inst |-> ret.inst],
             cleaned |-> cleaned, bad |-> 0,
             ctx |-> [i \in Inst |-> IF calls[i] > 0 THEN CtxView(i) ELSE "-"],
             end |-> end]

GInit == /\ Init
         /\ GenCfgOK(cfg)
         /\ hist = <<>>
         /\ pend0 = pending

\* after the call has returned the driver lets the late calls finish in ascending order, ok or err
PostOK(i, o) == mainPc = "returned" =>
                  /\ o \in {"ok", "err"}
                  /\ \A j \in Inst : st[j] = "running" => i <= j

Env(step, A) == Quiet /\ A /\ hist' = hist \o <<Obs(FALSE), step>> /\ pend0' = pend0

\* Go: cancel() closes the context's own done channel before it cancels the child contexts, so a
\* main loop blocked in select commits to the ctx.Done() case before any held-back goroutine can post
SelectCommit == (parentCancelled /\ mainPc = "loop") => mainPc' = "returned"

GNext == \/ \E i \in Inst : \E o \in {"ok", "err", "term"} :
              PostOK(i, o) /\ Env([a |-> "finish", i |-> i, o |-> o], Finish(i, o))
         \/ Env([a |-> "adv"], Advance)
         \/ GenCancel /\ Env([a |-> "cancel"], ParentCancel)
         \/ ~Quiet /\ IntNext /\ SelectCommit /\ UNCHANGED <<hist, pend0>>

ZOrder == IF cfg.mode = "zone" /\ cfg.minimize
          THEN AscSeq(Zones \ SeqRange(pend0)) \o pend0
          ELSE <<>>

Behaviour == [cfg |-> [n |-> cfg.n, zone |-> cfg.zone, nz |-> cfg.nz, mode |-> cfg.mode, tol |-> cfg.tol,
                       minimize |-> cfg.minimize, hedge |-> cfg.hedge, pred |-> cfg.pred,
                       nocancel |-> cfg.nocancel, zorder |-> ZOrder, pseed |-> 0],
              steps |-> Append(hist, Obs(TRUE))]

Emit == Terminated => PrintT(ToJson(Behaviour))

NoRace      == \A i \in Inst : st[i] = "released" => ctx[i] = "live"
OneInFlight == (mainPc = "loop" /\ ~Succeeded) => Len(chan) <= 1
=============================================================================
