---------------------------- MODULE TokenGenTrace ----------------------------
(***************************************************************************)
(* C16, code -> specification.  trace.ndjson holds one event per real call *)
(* made by harness/c16 (constructors, GenerateTokens, CanJoin, the         *)
(* reserve computations, AddPartition).  Every event is bound to the       *)
(* corresponding action of TokenGen.tla with its arguments AND its result  *)
(* taken from the log; the clauses of the contract and the history         *)
(* invariants are checked on the observation `last` after every event.     *)
(* Tokens are pairs of 16-bit limbs.  A trace is accepted iff TLC reaches  *)
(* its end without violating an invariant; an event that cannot be bound   *)
(* (unknown handle, unknown reserve) is a deadlock = malformed trace.      *)
(* NTraces independent traces (trace_1.ndjson ..) are validated in one     *)
(* run: the initial state picks the trace, TLC's workers run them side by  *)
(* side.                                                                   *)
(***************************************************************************)
EXTENDS TokenGen, Json

CONSTANT NTraces

VARIABLES tr,     \* which trace this behaviour validates
          i,      \* next line of the trace
          gens    \* generator handle -> [kind, inst, zone, cj]  (what the driver asked the constructor for)

tvars == <<reserve, ring, pool, parts, shrunk, last, tr, i, gens>>

Traces == [k \in 1..NTraces |-> ndJsonDeserialize("trace_" \o ToString(k) \o ".ndjson")]

ToSet(a)     == {a[k] : k \in DOMAIN a}
MemberOf(n)  == IF n < 0 THEN NoMember ELSE <<n, 0>>

TInit == /\ reserve = EmptyFcn /\ ring = EmptyFcn /\ pool = {} /\ parts = EmptyFcn /\ shrunk = FALSE
         /\ last = None /\ tr \in 1..NTraces /\ i = 1 /\ gens = EmptyFcn

Reset(e) == /\ e.ev = "reset"
            /\ reserve' = EmptyFcn /\ ring' = EmptyFcn /\ pool' = {} /\ parts' = EmptyFcn /\ shrunk' = FALSE
            /\ last' = [ev |-> "reset"] /\ gens' = EmptyFcn

Note(e) == /\ e.ev = "note"
           /\ last' = [ev |-> "note"]
           /\ UNCHANGED <<reserve, ring, pool, parts, shrunk, gens>>

NewGen(e) == /\ e.ev = "gen"
             /\ ConstructObs(e.ctor, e.nz, e.zin, e.idok, e.ok)
             /\ gens' = IF e.ok /\ e.h >= 0
                        THEN [h \in DOMAIN gens \cup {e.h} |->
                                IF h = e.h THEN [kind |-> e.kind, inst |-> e.inst, zone |-> e.zone, cj |-> e.cj]
                                ELSE gens[h]]
                        ELSE gens

CallEv(e) == /\ e.ev = "call"
             /\ e.h \in DOMAIN gens
             /\ LET g == gens[e.h] IN
                /\ g.kind = "spread" => Key(g) \in DOMAIN reserve      \* the driver observes reserves first
                /\ CallObs(g, MemberOf(e.member), e.req,
                           IF e.member >= 0 THEN pool ELSE ToSet(e.taken),
                           e.out, e.panic)
             /\ UNCHANGED gens

ObserveEv(e) == /\ e.ev = "observe"
                /\ e.h \in DOMAIN gens
                /\ gens[e.h].kind = "spread" /\ gens[e.h].zone = e.zone
                /\ IF e.via = "bylarger" THEN e.inst <= gens[e.h].inst ELSE e.inst = gens[e.h].inst
                /\ ObserveObs(e.via, e.inst, e.zone, e.toks)
                /\ UNCHANGED gens

FamilyEv(e) == /\ e.ev = "family"
               /\ e.h \in DOMAIN gens
               /\ gens[e.h].kind = "spread" /\ gens[e.h].zone = e.zone /\ Len(e.fam) = gens[e.h].inst + 1
               /\ FamilyObs(e.zone, e.fam)
               /\ UNCHANGED gens

DonorsEv(e) == /\ e.ev = "donors"
               /\ e.h \in DOMAIN gens
               /\ gens[e.h].kind = "spread" /\ gens[e.h].zone = e.zone
               /\ Len(e.ring) = (gens[e.h].inst + 1) * R
               /\ DonorsObs(e.zone, e.from, e.ring, e.prefixes)
               /\ UNCHANGED gens

CanJoinEv(e) == /\ e.ev = "canjoin"
                /\ e.h \in DOMAIN gens
                /\ CanJoinObs(gens[e.h], e.pp, e.pt, e.enabled, e.ok)
                /\ UNCHANGED gens

LoseEv(e)  == e.ev = "lose"  /\ LoseObs(MemberOf(e.member), ToSet(e.toks)) /\ UNCHANGED gens
LeaveEv(e) == e.ev = "leave" /\ LeaveObs(MemberOf(e.member)) /\ UNCHANGED gens
PartitionEv(e) == e.ev = "partition" /\ AddPartitionObs(e.id, e.toks, e.panic) /\ UNCHANGED gens

TNext == \/ /\ i <= Len(Traces[tr])
            /\ i' = i + 1 /\ tr' = tr
            /\ LET e == Traces[tr][i] IN
               \/ Reset(e) \/ Note(e) \/ NewGen(e) \/ CallEv(e) \/ ObserveEv(e) \/ FamilyEv(e) \/ DonorsEv(e)
               \/ CanJoinEv(e) \/ LoseEv(e) \/ LeaveEv(e) \/ PartitionEv(e)
         \/ /\ i > Len(Traces[tr])                \* the whole trace was accepted
            /\ UNCHANGED tvars

TSpec == TInit /\ [][TNext]_tvars

(* what TLC prints of a state of a rejected trace (the state itself holds thousands of tokens) *)
TraceAlias == [tr |-> tr, i |-> i, ev |-> last.ev]

-----------------------------------------------------------------------------
(* the clauses, on the event just consumed *)
I_NoPanic           == C_NoPanic(last)
I_InSpace           == C_InSpace(last)
I_NoTaken           == C_NoTaken(last)
I_SortedUnique      == C_SortedUnique(last)
I_AtMost            == C_AtMost(last)
I_RandomCount       == C_RandomCount(last)
I_SpreadFromReserve == C_SpreadFromReserve(last)
I_SpreadCount       == C_SpreadCount(last)
I_SpreadLowestFirst == C_SpreadLowestFirst(last)
I_SpreadExact       == C_SpreadExact(last)
I_ZoneCongruent     == C_ZoneCongruentOut(last) /\ (IsObs(last) => \A t \in Range(last.toks) : Cong(t) = last.zone)
I_ObsShape          == C_ObsShape(last)
I_Reproducible      == C_Reproducible(last)
I_ReservesDisjoint  == C_DisjointStep(last)
I_FamilyShape       == C_FamilyShape(last)
I_FamilyReproducible == C_FamilyReproducible(last)
I_FamilyDisjoint    == C_FamilyDisjoint(last)
I_RingIsFamily      == C_RingIsFamily(last)
I_NoDonorStarved    == C_NoDonorStarved(last)
I_SharesTile        == C_SharesTile(last)
I_SharesWithinOnePercent == C_SharesWithinOnePercent(last)
I_CanJoin           == C_CanJoin(last)
I_CanJoinEnabled    == C_CanJoinEnabled(last)
I_Constructor       == C_Constructor(last)
I_PartitionNoPanic  == C_PartitionNoPanic(last)
(* partition ring and cluster: only after the events that change them *)
I_PartitionTokens    == last.ev = "partition" => PartitionTokens
I_PartitionsDisjoint == last.ev = "partition" =>
                          \A q \in DOMAIN parts : q # last.id /\ last.id \in DOMAIN parts
                             => Range(parts[q]) \cap Range(parts[last.id]) = {}
I_AllDistinct        == (IsCall(last) /\ last.member # NoMember) => AllDistinct
I_SpreadOwnReserve   == (IsCall(last) /\ last.member # NoMember) => SpreadOwnReserve
(* members whose generator has the CanJoin check on (real lifecyclers wait for it; the synthetic clusters of the  *)
(* driver join in index order) hold tokens only if the previous instance of their zone does, until somebody leaves *)
I_PrefixWhenGrowing  == (IsCall(last) /\ last.member # NoMember) => PrefixWhenGrowing
A_NeverShort         == [][S_NeverShort(ring, last')]_tvars
=============================================================================
