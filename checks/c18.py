"""C18 - modules initialise, start and stop in dependency order for every graph.

spec/modules:
  Modules.tla        graph part: AddDependency (cycle rejection) and the InitModuleServices algorithm as a state
                     machine over every DAG; TLC decides CycleRejected, InitOrder, InitExactlyNeeded and emits every DAG
  ModulesRun.tla     run-time part: the wrapper W[m] of module_service.go around a scripted service S[m]; TLC decides
                     StartAfterDeps, StopAfterDependants, FailurePropagates and termination (no deadlock but "all stopped")
  ModulesTrace.tla / ModulesRunTrace.tla   validators of what the real code did (same clauses, ModulesDefs.tla)
harness/c18: replays every emitted DAG into modules.Manager, records initialisation orders and run-time events.
"""
import json
import os

import verif

PROPERTY = "C18"
META = {
    "level_text": "TLC explores modules.Manager as a state machine over EVERY dependency DAG on 4 (quick) / 5 (thorough: 29 281) modules: "
                  "AddDependency with every argument (CycleRejected: accepted iff the graph stays acyclic, rejected calls change nothing) and the "
                  "InitModuleServices / orderedDeps algorithm for every target set, target order and map-iteration choice (InitOrder, InitExactlyNeeded). "
                  "Every DAG is replayed on the real Manager (closure, every cycle-closing edge incl. self-edges, every target subset x3 runs); the observed "
                  "init orders and service maps are validated by TLC against the declarative clauses. The wrapper of module_service.go is a second "
                  "machine (one action per blocking point) around scripted services, model-checked over every DAG shape on <=3 (quick) / 4 modules x one "
                  "faulty service (start/run/exit/stop) x stop requests at any time: StartAfterDeps, StopAfterDependants, FailurePropagates, no deadlock "
                  "short of 'everything stopped'. Real wrappers run under testing/synctest (scripted latencies, failures, stop at every tick, late / never "
                  "started wrappers, random DAGs up to 12 modules); every StartAsync/StopAsync the wrapper issues is logged synchronously with a snapshot "
                  "of all states and TLC evaluates the same clauses on every event. A second scenario family runs all wrappers under one services.Manager whose "
                  "failure listener stops everything on the first failure (start/run/stop failure, self-exit, modules.ErrStopProcess): same clauses plus "
                  "FailureIsReported / StopProcessReported. Thorough tier also: spec self-tests (the pre-fix code as a model - self-edge accepted (F3), "
                  "stop not awaiting a Stopping service (F8) - must be REFUTED by TLC, else exit 2), liveness (Termination, FailurePropagatesLive under weak "
                  "fairness), and ModuleOptions.tla: every sequence of <=3 RegisterModule calls with visibility options replayed against "
                  "IsUserVisibleModule / IsTargetableModule / IsModuleRegistered / UserVisibleModuleNames.",
    "level_note": "Trusted: TLC; the observation points (obsService around the module's service, the scripted start/run/stop functions) and the "
                  "State() snapshots taken under one mutex; services.BasicService itself (C17). The run-time direction is record/validate with a "
                  "monitor (clauses evaluated on every event), not a refinement replay of every wrapper step; exhaustive interleavings exist only in the "
                  "model (<=4 modules), the real code is sampled at tick granularity.",
    "technique": "TLA+ specifications (Modules.tla, ModulesRun.tla) model-checked by TLC; TLC-generated DAG cases replayed into the real code; "
                 "recorded initialisation orders and run-time traces validated by TLC",
    "design_ref": "DESIGN.md 2 C18",
}

TERMINAL = (4, 5)
# development only: "graph" / "runtime" = run only that part, "nomc" = skip the model-checking of ModulesRun.tla
DEV = set(x for x in os.environ.get("VERIF_C18_DEV", "").split(",") if x)


def _incon(why):
    raise verif.Inconclusive(why)


def _check_cov(ctx, r, what):
    """Vacuity guard on the final coverage dump (TLC also prints intermediate ones)."""
    import re
    k = r.log.rfind("The coverage statistics at")
    if k < 0:
        _incon("%s: no coverage statistics in the TLC log" % what)
    zero = re.findall(r"^<(\w+) line [^>]*>: 0:0$", r.log[k:], re.M)
    if zero:
        _incon("%s: actions never taken (vacuity): %s" % (what, ", ".join(sorted(set(zero)))))


def selftest(ctx, W, module, cfg, expect, what):
    """The code as it was BEFORE a dskit fix, as a model: TLC must refute the property (otherwise the
    specification has lost its teeth - inconclusive, never a verdict about the code)."""
    r = ctx.tlc("modules", module, cfg=cfg, timeout=1200, workers=min(W, 4), count=False)
    if r.timed_out or r.error or r.violated not in expect:
        _incon("self-test %s: TLC was expected to refute %s on the %s, got violated=%s error=%s" % (
            cfg, "/".join(expect), what, r.violated, (r.error or "")[:200]))
    ctx.extra.setdefault("selftests_refuted", []).append("%s: %s" % (cfg, r.violated))


def graph_part(ctx, W):
    quick = ctx.tier == "quick"
    # --- the property on the specification, and the DAG cases -------------------------------------
    runs = [("MC_graph_quick.cfg", True)] if quick else \
           [("MC_graph_build5.cfg", True), ("MC_graph_init4.cfg", False), ("MC_graph_init5.cfg", False)]
    cases = []
    for cfg, emits in runs:
        r = ctx.tlc("modules", "Modules", cfg=cfg, timeout=7200, workers=W, coverage=not quick and cfg != "MC_graph_init5.cfg")
        ctx.require_tlc_ok(r, cfg)
        if not quick and cfg == "MC_graph_init4.cfg":
            _check_cov(ctx, r, cfg)
        if emits:
            if r.emitted == 0:
                _incon("%s emitted no DAG" % cfg)
            cases.append(r.out_path)
    if not quick:
        selftest(ctx, W, "Modules", "MC_selftest_preF3.cfg", ("CycleRejected",), "pre-7655698 cycle check (F3: self-edge accepted)")
    want = {"quick": 543, "thorough": 29281}[ctx.tier]
    ncases = sum(1 for p in cases for _ in open(p))
    if ncases != want:
        _incon("expected %d labelled DAGs, TLC emitted %d" % (want, ncases))
    allcases = ctx.path("graph_cases.ndjson")
    with open(allcases, "w") as out:
        for p in cases:
            out.write(open(p).read())
    # --- spec -> code: replay every DAG; code -> spec: observations --------------------------------
    obs1, obs2 = ctx.path("obs_enum.ndjson"), ctx.path("obs_random.ndjson")
    res = ctx.run_harness("c18", "^TestGraph$", env={"VERIF_IN": allcases, "VERIF_OBS": obs1, "VERIF_REPS": 3,
                                                    "VERIF_INIT_EVERY": 1 if quick else 12}, timeout=7200)
    if res.get("cases") != ncases:
        _incon("harness replayed %s of %d DAGs" % (res.get("cases"), ncases))
    ctx.absorb(res, "graph replay")
    res2 = ctx.run_harness("c18", "^TestGraphRandom$", env={"VERIF_OBS": obs2, "VERIF_COUNT": 200 if quick else 1000}, timeout=7200)
    ctx.absorb(res2, "random graphs")
    obs = ctx.path("obs.ndjson")
    lines = open(obs1).read() + open(obs2).read()
    if os.environ.get("VERIF_C18_CORRUPT") == "obs":      # self-test: swap two entries of one recorded order
        ls = lines.split("\n")
        for k, l in enumerate(ls):
            o = json.loads(l) if l else None
            if o and o["edges"] and any(len(r[1]) >= 2 and not r[4] for r in o["runs"]):
                for r in o["runs"]:
                    if len(r[1]) >= 2 and [r[1][-1], r[1][0]] in o["edges"]:
                        r[1][0], r[1][-1] = r[1][-1], r[1][0]
                        ls[k] = json.dumps(o)
                        break
                else:
                    continue
                break
        lines = "\n".join(ls)
    open(obs, "w").write(lines)
    nobs = lines.count("\n")
    r = ctx.tlc("modules", "ModulesTrace", extra_files={obs: "obs.ndjson"}, workers=W, timeout=7200, deadlock=False, count=False)
    ctx.require_tlc_ok(r, "validation of the recorded initialisations")
    if r.distinct != nobs:
        _incon("validator looked at %d of %d observation lines" % (r.distinct, nobs))
    ctx.traces += nobs
    obs_lines = None
    for bad in verif.read_ndjson(r.out_path):
        if obs_lines is None:
            obs_lines = lines.split("\n")
        o = json.loads(obs_lines[bad["line"] - 1])
        names = sorted(bad["bad"])
        sig = "graph:" + "+".join(names)
        wit = bad.get("witness", {})
        add = (wit.get("add") or [None])[0]
        if names == ["CycleRejected"] and add:
            sig = "AddDependency:self-edge-accepted" if add["a"] in add["B"] else "AddDependency:cycle-accepted"
        ctx.disagreement({"sig": sig, "case": {"n": o["n"], "edges": o["edges"], "hasinit": o["hasinit"], "hassvc": o["hassvc"]},
                          "got": wit, "want": "clauses %s of spec/modules/ModulesDefs.tla" % names}, "recorded initialisation")
    ctx.extra["graph_observations"] = nobs


def options_part(ctx, W):
    """Registration options (visibility / targetability): every sequence of <= 3 registrations, replayed."""
    r = ctx.tlc("modules", "ModuleOptions", cfg="MC_options.cfg", timeout=1200, workers=min(W, 4))
    ctx.require_tlc_ok(r, "MC_options.cfg")
    if r.emitted == 0:
        _incon("MC_options.cfg emitted no case")
    res = ctx.run_harness("c18", "^TestOptions$", env={"VERIF_IN": r.out_path}, timeout=1200)
    if res.get("cases") != r.emitted:
        _incon("harness replayed %s of %d registration sequences" % (res.get("cases"), r.emitted))
    ctx.absorb(res, "registration options")


def runtime_part(ctx, W):
    quick = ctx.tier == "quick"
    cfgs = ["MC_run_quick.cfg"] if quick else \
           ["MC_run_wide3.cfg", "MC_run_late2.cfg", "MC_run_shapes4.cfg", "MC_run_named4.cfg", "MC_run_holes4.cfg", "MC_run_live2.cfg", "MC_run_live.cfg"]
    for cfg in ([] if "nomc" in DEV else cfgs):
        r = ctx.tlc("modules", "MCRun", cfg=cfg, timeout=7200, workers=W, coverage=(cfg == "MC_run_late2.cfg"))
        ctx.require_tlc_ok(r, cfg)
        if cfg == "MC_run_late2.cfg":
            _check_cov(ctx, r, cfg)
    if not quick and "nomc" not in DEV:
        selftest(ctx, W, "MCRun", "MC_selftest_preF8.cfg", ("StopOrderState", "StopAfterDependants"),
                 "pre-fe293af moduleService.stop (F8: wrapper terminal while its service is still stopping)")
    trace = ctx.path("runtime_trace.ndjson")
    res = ctx.run_harness("c18", "^TestRuntime$", env={"VERIF_TRACE": trace}, timeout=7200)
    ctx.absorb(res, "run-time recording")
    lines = open(trace).read().split("\n")
    if os.environ.get("VERIF_C18_CORRUPT") == "trace":    # self-test: a dependency looks New when a dependant's service starts
        for k, l in enumerate(lines):
            e = json.loads(l) if l else {}
            if e.get("ev") == "istart" and sum(1 for x in e["w"] if x == 2) >= 1:
                e["w"] = [0 if x == 2 else x for x in e["w"]]
                lines[k] = json.dumps(e)
                break
        open(trace, "w").write("\n".join(lines))
    nlines = sum(1 for l in lines if l)
    nruns = sum(1 for l in lines if l.startswith('{"k":"h"'))
    r = ctx.tlc("modules", "ModulesRunTrace", extra_files={trace: "trace.ndjson"}, workers=W, timeout=7200, deadlock=False, count=False)
    ctx.require_tlc_ok(r, "validation of the recorded run-time traces")
    if r.distinct != nlines:
        _incon("validator looked at %d of %d trace lines" % (r.distinct, nlines))
    ctx.extra["runtime_runs"] = nruns
    first = {}
    for bad in verif.read_ndjson(r.out_path):
        if bad["run"] not in first or bad["line"] < first[bad["run"]]["line"]:
            first[bad["run"]] = bad
    if not first:
        return
    scen = {s["id"]: s for s in verif.read_ndjson(trace + ".scenarios")}
    for run_id in sorted(first)[:200]:
        bad = first[run_id]
        names = sorted(bad["bad"])
        sig = "runtime:" + "+".join(names)
        if bad["ev"] == "istop" and set(names) <= {"StopAfterDependants", "StopOrderState"} and "StopAfterDependants" in names:
            # which dependants' services were still active, and what their wrappers said
            active = [(x, bad["w"][x - 1], bad["s"][x - 1]) for x in bad.get("active_dependants", [])]
            if active and all(wx in TERMINAL and sx == 3 for _, wx, sx in active):
                sig = "runtime:StopAfterDependants:wrapper-terminal-while-service-stopping"
        h = max(k for k in range(bad["line"]) if lines[k].startswith('{"k":"h"'))
        ctx.disagreement({"sig": sig, "case": scen.get(run_id), "got": {"event": bad, "trace": [json.loads(l) for l in lines[h:bad["line"]]][-40:]},
                          "want": "clauses %s of spec/modules/ModulesDefs.tla hold at every event" % names}, "recorded run-time trace")


def run(ctx):
    ctx.rule = ("graph part: one case = one labelled DAG emitted by TLC (all 543 on 4 modules / all 29 281 on 5), replayed 3x with seeded edge order, "
                "module kinds and target orders, every cycle-closing edge tried, every target subset initialised; non-trivial = the DAG has an edge; "
                "plus random DAGs on 5..12 modules. run-time part: one case = one recorded run (graph shape x module kinds x faulty service x "
                "latencies x start/stop plan, stop at every tick up to the horizon; or the same under one services.Manager with stop-on-first-failure); "
                "non-trivial = the graph has an edge and a wrapper told its service to stop. thorough: + one case per registration sequence (ModuleOptions)")
    ctx.assumptions = ["observation points: obsService wrapper around each module service and the scripted start/run/stop functions; State() snapshots under one mutex",
                       "services.BasicService behaves as specified (C17)",
                       "real wrappers are sampled at tick granularity under testing/synctest; exhaustive interleavings only in the model"]
    W = int(os.environ.get("VERIF_TLC_WORKERS", "8"))
    ctx.exhaustive = True
    if DEV:   # development knobs (mutation testing): never a clean verdict
        ctx.inconclusive_note("VERIF_C18_DEV=%s: parts of the check were skipped" % ",".join(sorted(DEV)))
    if "runtime" not in DEV:
        graph_part(ctx, W)
        if ctx.tier != "quick":
            options_part(ctx, W)
    if "graph" not in DEV:
        runtime_part(ctx, W)
    return "model_checking"
