CONSTANTS
  MaxN = 3
  NSet = {1, 2, 3}
  MaxZ = 3
  Modes = {"default", "zone"}
  MinHedge = {0, 3}
  Preds = {"nottransient", "all"}
  NoCancels = {TRUE}
SPECIFICATION Spec
PROPERTIES Termination
INVARIANTS TypeOK OnlySuccessful QuorumBacked ErrWhenExceeded AtMostOneCall Minimised CleanupSafe CleanupExactlyOnce UnusedCancelled ReturnedNotCancelled PlainAllCancelled CancelJustified
CHECK_DEADLOCK FALSE
