\* t_z5stale: C02: 5 single-token instances, zones 0..5, ACTIVE x {edge,stale}
\* (generated from UNIVERSES in checks/ringlookup_common.py: python3 checks/ringlookup_common.py --write-cfgs)
CONSTANTS
  NK = 6
  Gaps = {3}
  N = 5
  MaxTok = 1
  MaxIdle = 0
  Z = 5
  StateSet = {"ACTIVE"}
  HbSet = {"edge", "stale"}
  RFMax = 5
  Canon = 2
  WithRemove = FALSE
  Excl = {}
  EmitOn = TRUE
  EmitSets = TRUE
  XMax = 0
INIT Init
NEXT Next
VIEW View
INVARIANTS TypeOK SizeOK ZoneOK ClockwiseFirst SlackExact WalkDefsAgree QuorumIntersection ExpandedOK Emit
PROPERTIES MinimalDisruption
CHECK_DEADLOCK FALSE
