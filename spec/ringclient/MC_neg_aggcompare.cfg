\* negative control: with a RingCompare that compares the collection of topology records (AggClassify) UnobservableFast
\* is EXPECTED to be violated - and only the exchange updates can show it
CONSTANTS
  Inst = {1, 2}
  Ident = {1}
  Sizes = {1}
  Lookbacks = {1}
  Times = {3, 4}
  Readers = {}
  MaxUpd = 1
  ZoneAware = TRUE
  Addrs = {1}
  Zones = {1, 2}
  Toks = {0, 1}
  Stamps = {0, 2}
  States = {"ACTIVE"}
  Beats = {1, 2}
  Compute <- MCCompute
  InitDescs <- SwapInitDescs
  Classify <- AggClassify
INIT Init
NEXT NextSwap
INVARIANT UnobservableFast
