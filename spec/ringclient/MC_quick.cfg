CONSTANTS
  Inst = {1, 2}
  Ident = {1, 2}
  Sizes = {1}
  Lookbacks = {1, 2}
  Times = {3, 4, 5}
  Readers = {1}
  MaxUpd = 4
  ZoneAware = FALSE
  Addrs = {1, 2}
  Zones = {1, 2}
  Toks = {0, 1}
  Stamps = {0, 2, 3}
  States = {"ACTIVE", "LEAVING"}
  Beats = {1, 2}
  Compute <- MCCompute
  InitDescs <- MCInitDescs
INIT Init
NEXT Next
INVARIANTS TypeOK Unobservable PendingSound
