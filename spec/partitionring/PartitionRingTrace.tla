-------------------------- MODULE PartitionRingTrace --------------------------
(***************************************************************************)
(* C15, code -> spec: validates the events recorded by harness/c15         *)
(* TestRecordTrace against PartitionRing.tla, re-using its actions.        *)
(*                                                                         *)
(* trace.ndjson is a concatenation of chains, each opened by a "reset"     *)
(* event (fresh store, clock 0).  Every chain is one behaviour; TLC starts *)
(* one initial state per chain so the chains are validated in parallel.    *)
(*   begin  l p o cfg create   - a lifecycler is started                   *)
(*   stop   l remove           - StopAsync                                 *)
(*   get    w in               - plain read by a starting lifecycler       *)
(*   cas    w in wrote [out] res call                                      *)
(*                             - one CAS of writer w (0 = editor), in      *)
(*                               commit order; call = what the driver      *)
(*                               asked for ("none": the writer acted on    *)
(*                               its own)                                  *)
(*   attempt w in out call     - a CAS function that decided to write but   *)
(*                               lost the race (conflict chains)           *)
(*   state  l got ts           - GetPartitionState of a running lifecycler *)
(* An event at time now > clock is preceded by silent Ticks.  A chain is   *)
(* accepted iff all its events are consumed (Done prints its number).      *)
(***************************************************************************)
EXTENDS PartitionRing, Json

Trace   == ndJsonDeserialize("trace.ndjson")
Starts  == SetToSortSeq({j \in 1..Len(Trace) : Trace[j].ev = "reset"}, <)
NChains == Len(Starts)
EndOf(ch) == IF ch < NChains THEN Starts[ch + 1] - 1 ELSE Len(Trace)
Only    == @@ONLY@@      \* 0: all chains; k: only the k-th chain of the file

VARIABLES ch,   \* chain being validated
          i     \* next event to consume

tvars == <<parts, owners, clock, lc, act, ch, i>>

TInit == /\ ch \in (IF Only = 0 THEN 1..NChains ELSE {Only})
         /\ i = Starts[ch] + 1
         /\ Init

RingIs(r)   == parts = r.parts /\ owners = r.owners
RingNext(r) == parts' = r.parts /\ owners' = r.owners

Autonomous(w) == \/ StartCreate(w) \/ StartRegister(w) \/ ReconcileOwned(w)
                 \/ ReconcileOthers(w) \/ StopRemove(w)

CasAction(e) ==
    CASE e.call.kind = "none"              -> e.w \in Lifecycler /\ Autonomous(e.w)
      [] e.call.kind = "EditorChangeState" -> e.w = 0 /\ EditorChangeState(e.call.p, e.call.s)
      [] e.call.kind = "EditorSetLock"     -> e.w = 0 /\ EditorSetLock(e.call.p, e.call.b)
      [] e.call.kind = "EditorRemoveOwner" -> e.w = 0 /\ EditorRemoveOwner(e.call.o)
      [] e.call.kind = "LcChangeState"     -> e.w \in Lifecycler /\ LcChangeState(e.w, e.call.s)
      [] OTHER -> FALSE

Consume(e) ==
    CASE e.ev = "begin" -> Begin(e.l, e.p, e.o, e.cfg, e.create)
      [] e.ev = "stop"  -> Stop(e.l, e.remove)
      [] e.ev = "get"   -> RingIs(e.in) /\ WaitPoll(e.w)
      [] e.ev = "cas"   -> /\ RingIs(e.in)
                           /\ CasAction(e)
                           /\ act'.res = e.res
                           /\ e.wrote = (e.res = "ok")
                           /\ IF e.wrote THEN RingNext(e.out) ELSE (parts' = parts /\ owners' = owners)
      \* a CAS function that ran on `in`, wanted to write `out`, and was then refused by the store because
      \* another writer committed in between (the writer retries: a later "cas" event): what it decided must be
      \* an enabled action of the writer on what it read; nothing changes
      [] e.ev = "attempt" -> /\ RingIs(e.in)
                             /\ ENABLED (CasAction(e) /\ act'.res = e.res /\ RingNext(e.out))
                             /\ UNCHANGED vars
      \* PartitionInstanceLifecycler.GetPartitionState of a running lifecycler: the state (and the time of the
      \* last change) of its partition in the current ring, "X" (ErrPartitionDoesNotExist) iff it is not there
      [] e.ev = "state" -> /\ lc[e.l].phase = "running"
                           /\ e.got = parts[lc[e.l].part].st
                           /\ e.got # "X" => e.ts = parts[lc[e.l].part].ts
                           /\ UNCHANGED vars
      [] OTHER -> FALSE

TNext ==
    /\ i <= EndOf(ch)
    /\ LET e == Trace[i] IN
       IF e.now > clock
       THEN Tick /\ UNCHANGED <<ch, i>>
       ELSE /\ e.now = clock
            /\ Consume(e)
            /\ i' = i + 1
            /\ UNCHANGED ch

TSpec == TInit /\ [][TNext]_tvars

Done     == (i = EndOf(ch) + 1) => PrintT(ToJson([done |-> ch]))
Progress == PrintT(ToJson([at |-> i, chain |-> ch]))
=============================================================================
