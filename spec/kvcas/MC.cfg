\* Template: bin/check substitutes the @@..@@ fields (checks/c07.py CONFIGS). By hand, e.g.
\*   sed -e 's/@@NC@@/3/;s/@@OPS@@/2/;s/@@BACKEND@@/"etcd"/;s/@@LIMIT@@/10/;s/@@MAXERR@@/1/' \
\*       -e 's/@@SECONDARY@@/"none"/;s/@@DELETE@@/FALSE/;s/@@EMIT@@/FALSE/;s/@@INV@@//' MC.cfg > MC_x.cfg
CONSTANTS
  NC = @@NC@@
  OpsPer = @@OPS@@
  Backend = @@BACKEND@@
  Limit = @@LIMIT@@
  MaxErr = @@MAXERR@@
  Secondary = @@SECONDARY@@
  WithDelete = @@DELETE@@
  Emit = @@EMIT@@
INIT Init
NEXT Next
VIEW view
INVARIANTS TypeOK AtMostOncePerCall MirrorSound SawCurrent @@INV@@
PROPERTY FailureIsNoop
ACTION_CONSTRAINT EmitHist
CHECK_DEADLOCK FALSE
