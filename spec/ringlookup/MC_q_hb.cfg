\* q_hb: all three heartbeat classes x {ACTIVE,LEFT}, 2 instances, tokenless allowed
\* (generated from UNIVERSES in checks/ringlookup_common.py: python3 checks/ringlookup_common.py --write-cfgs)
CONSTANTS
  NK = 4
  Gaps = {1}
  N = 2
  MaxTok = 1
  MaxIdle = 1
  Z = 1
  StateSet = {"ACTIVE", "LEFT"}
  HbSet = {"fresh", "edge", "stale"}
  RFMax = 3
  Canon = 2
  WithRemove = FALSE
  Excl = {}
  EmitOn = TRUE
  EmitSets = TRUE
  XMax = 0
INIT Init
NEXT Next
VIEW View
INVARIANTS TypeOK SizeOK ZoneOK ClockwiseFirst SlackExact WalkDefsAgree QuorumIntersection ExpandedOK Emit
PROPERTIES MinimalDisruption
CHECK_DEADLOCK FALSE
