CONSTANTS N = 4
  Dups = FALSE
  Wrong = "none"
INIT Init
NEXT Next
INVARIANTS PickInList OrderInsensitive AppendStable MonotoneBuckets
CHECK_DEADLOCK FALSE
