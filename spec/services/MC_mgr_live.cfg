CONSTANTS
  NS = 2
  NML = 1
  WH = {}
  WS = {1}
  ParentCancels = FALSE
  DirectStops = FALSE
SPECIFICATION MSpec
INVARIANTS MTypeOK ViewIsLastDelivered QuiescentViewExact HealthyExact StoppedExact HealthyLatchExact MNoDoubleClose FailureReportedOnce MListenerOrder MNotifierNeverBlocks MWaitersExact StartResultExact
PROPERTIES EventuallyStopped StopAllLeadsToStopped
CHECK_DEADLOCK FALSE
