---------------------------- MODULE RingReplica ----------------------------
(***************************************************************************)
(* C05 - one replica of the gossiped instance ring.  Its descriptor `d`    *)
(* changes only through RingMerge!Merge: updates delivered by peers        *)
(* (Deliver), local compare-and-swap writes (LocalCAS: the written value   *)
(* is the visible content with one entry rewritten or removed; missing     *)
(* entries become tombstones stamped with the clock) and an owner          *)
(* re-claiming tokens it lost (VerifyTokens, lifecycler.verifyTokens).     *)
(* Instances deliberately draw their tokens from one tiny shared pool, so  *)
(* collisions are the norm.                                                *)
(*                                                                         *)
(* TLC decides, over every reachable descriptor: TokenUnique,              *)
(* LeftHasNoTokens (state invariants - they must be inductive although     *)
(* resolution is skipped by the `tokens unchanged` shortcut), and on every *)
(* transition CollisionRule and ResolveDeterministic (action property      *)
(* StepRules).                                                             *)
(*                                                                         *)
(* Deliberately NOT demanded: that two replicas fed the same colliding     *)
(* updates in different orders hold equal descriptors.  Resolution strips  *)
(* a token from the loser without touching the loser's timestamp, so the   *)
(* replicas may differ in an (id, ts)-identical entry until the owner's    *)
(* next heartbeat; see ResolveWithoutTimestamp below (the named deviation) *)
(* and MC_diverge.cfg, which makes TLC exhibit it.                         *)
(***************************************************************************)
EXTENDS RingMerge, Json

CONSTANTS TsSet, LiveSt,
          MaxUpd,     \* a delivered update mentions at most MaxUpd instances
          Clock0, MaxClock,   \* the replica's clock runs Clock0..MaxClock
          CasRaw,     \* TRUE: a local CAS may write any entry of the universe; FALSE: only normalised entries stamped `clock`
          ThinK, ThinR, \* of the transitions that resolve a collision, those numbered ThinR modulo ThinK are
                      \* emitted as behaviours for the harness as well (ThinK = 0: none)
          ThinA       \* and of ALL transitions those numbered ThinR modulo ThinA (0: none)

VARIABLES d,       \* the replica's descriptor (tombstones included)
          clock,   \* its clock (seconds)
          last,    \* the step that produced d: [act, other, cas, now] and what Merge did
                   \* before resolution: [pre, resolved]                  (not in the VIEW)
          hist,    \* how d was reached from the empty descriptor        (not in the VIEW)
          handed   \* the snapshots handed out to readers so far, oldest first (not in the VIEW):
                   \* after every write the store gives its watchers Clone() of the value with the
                   \* tombstones stripped (kv/memberlist KV.get); a ring client keeps the last one
vars == <<d, clock, last, hist, handed>>
View == <<d, clock>>

Updates == {u \in DescsOf(TsSet, LiveSt, TRUE) : NumPresent(u) >= 1 /\ NumPresent(u) <= MaxUpd}
RawEntries(i) == EntriesOf(i, TsSet, LiveSt, TRUE)
Free(x) == {p \in Pos : Claimants(x, p) = {}}

JEntry(e) == [ts |-> e.ts, state |-> e.state, toks |-> e.toks]
JDesc(x)  == [i \in Inst |-> JEntry(x[i])]

Step(act, o, cs) ==
    LET m == Merge(d, o, cs, clock) IN
    /\ d' = m.result
    /\ last' = [act |-> act, other |-> o, cas |-> cs, now |-> clock, pre |-> m.pre, resolved |-> m.resolved]
    /\ hist' = Append(hist, [act |-> act, other |-> JDesc(o), cas |-> cs, now |-> clock,
                             post |-> JDesc(m.result), nil |-> m.change.nil, change |-> JDesc(m.change.d),
                             resolved |-> m.resolved, owner |-> [p \in 1..M |-> Owner(m.result, p - 1)]])
    /\ handed' = Append(handed, Logical(m.result))
    /\ UNCHANGED clock

Deliver(o) == Step("Deliver", o, FALSE)

\* a local CAS whose function rewrites (or drops: e = Absent) entry i of the visible content
LocalCAS(i, e) == Step("LocalCAS", [Logical(d) EXCEPT ![i] = e], TRUE)
CasEntries(i) == IF CasRaw THEN RawEntries(i) ELSE EntriesOf(i, {clock}, LiveSt, FALSE)

\* the owner i finds some of its tokens gone and claims free positions instead, stamped now
VerifyTokens(i, S) ==
    /\ Present(d[i]) /\ ~IsLeft(d[i])
    /\ S # {} /\ S \subseteq Free(d)
    /\ Step("VerifyTokens", [Logical(d) EXCEPT ![i] = [ts |-> clock, state |-> d[i].state, toks |-> d[i].toks \cup S]], TRUE)

Tick == /\ clock < MaxClock
        /\ clock' = clock + 1
        /\ last' = [act |-> "Tick", other |-> Empty, cas |-> FALSE, now |-> clock + 1, pre |-> d, resolved |-> FALSE]
        /\ hist' = Append(hist, [act |-> "Tick", other |-> JDesc(Empty), cas |-> FALSE, now |-> clock + 1,
                                 post |-> JDesc(d), nil |-> TRUE, change |-> JDesc(Empty), resolved |-> FALSE,
                                 owner |-> [p \in 1..M |-> Owner(d, p - 1)]])
        /\ UNCHANGED <<d, handed>>

Init == /\ d = Empty
        /\ clock = Clock0
        /\ last = [act |-> "Init", other |-> Empty, cas |-> FALSE, now |-> Clock0, pre |-> Empty, resolved |-> FALSE]
        /\ hist = <<>>
        /\ handed = <<>>

Next == \/ \E o \in Updates : Deliver(o)
        \/ \E i \in Inst : \E e \in CasEntries(i) : LocalCAS(i, e)
        \/ \E i \in Inst : \E S \in SUBSET Pos : VerifyTokens(i, S)
        \/ Tick

Spec == Init /\ [][Next]_vars

---------------------------------------------------------------------------
TypeOK == /\ d \in [Inst -> [ts : Nat, state : LiveStates \cup {"LEFT", "ABSENT"}, toks : SUBSET Pos]]
          /\ clock \in Clock0..MaxClock

InvTokenUnique     == TokenUnique(d)
InvLeftHasNoTokens == LeftHasNoTokens(d)
InvNormal          == Normal(d)

(* Checked on every transition (TLC evaluates action properties for every   *)
(* generated successor, also those whose VIEW was seen before).  last'.pre  *)
(* is the descriptor before conflict resolution, last'.resolved whether the *)
(* `tokens changed` shortcut let resolution run (both as Merge computed     *)
(* them in Step).  CollisionStep is RingMerge!CollisionRule for this step:  *)
(* a fresh collision is always resolved, the position goes to the claimant  *)
(* the rule names and every other claimant lacks it; ResolveDeterministic:  *)
(* the code's map-order-dependent tournament yields that same outcome for   *)
(* every iteration order.                                                   *)
CollisionStep ==
    \A p \in Pos : Cardinality(Claimants(last'.pre, p)) > 1 =>
        /\ last'.resolved
        /\ Claimants(d', p) = {Winner(last'.pre, p)}
StepRule ==
    last'.act \in {"Deliver", "LocalCAS", "VerifyTokens"} =>
        /\ CollisionStep
        /\ Conflicts(last'.pre) => ResolveDeterministic(last'.pre)
        /\ ~last'.resolved => d' = last'.pre
        /\ \A p \in Pos : Claimants(d', p) \subseteq Claimants(last'.pre, p)     \* nobody gains a token by resolution
StepRules == [][StepRule]_vars

(* The Mergeable contract made explicit ("Clone returns a deep copy"; the    *)
(* store merges in place and hands Clone()s to its readers): a snapshot      *)
(* that was handed out is a value - no later step changes it - and the last  *)
(* one is exactly the visible content of the replica, so a long-lived reader *)
(* that is notified after every write answers like a reader built afresh     *)
(* from the current value.  In TLA+ values cannot change, so these hold by    *)
(* construction; they are stated (and checked on every transition) because   *)
(* they are what harness/c05 checks on the real objects: every clone handed  *)
(* out earlier is deep-compared with the copy taken at hand-out time after   *)
(* every real Merge, and a long-lived ring.Ring fed those clones is compared *)
(* with a fresh one after every step.                                        *)
SnapshotsImmutable ==
    [][/\ Len(handed') >= Len(handed)
       /\ \A k \in DOMAIN handed : handed'[k] = handed[k]]_vars
ReaderSeesLatest ==
    [][last'.act \in {"Deliver", "LocalCAS", "VerifyTokens"} =>
          /\ Len(handed') = Len(handed) + 1
          /\ handed'[Len(handed')] = Logical(d')]_vars

(* The named deviation: a step that resolves a collision changes the token  *)
(* list of an entry whose (id, ts) stays what it was - the reason C03       *)
(* excludes shared tokens from its convergence claim.                       *)
ResolveWithoutTimestamp ==
    \E i \in Inst : /\ Present(d[i]) /\ d'[i].ts = d[i].ts /\ d'[i].state = d[i].state
                    /\ d'[i].toks # d[i].toks
NeverResolveWithoutTimestamp == [][~ResolveWithoutTimestamp]_vars   \* expected to be VIOLATED (MC_diverge.cfg)

(* One line per distinct reachable <<d, clock>>: the BFS path that reached  *)
(* it, with the descriptor the specification demands after every step       *)
(* (EmitPath), plus a thinned sample of all transitions and a denser one of  *)
(* the transitions that resolve a collision, each with the path to its       *)
(* source state (EmitResolving).                                             *)
StepNo == Rank(d) + 3 * Rank(last'.other) + clock + (IF last'.cas THEN 5 ELSE 0)
Thin == \/ ThinK > 0 /\ last'.resolved /\ StepNo % ThinK = ThinR % ThinK
        \/ ThinA > 0 /\ last'.act # "Tick" /\ StepNo % ThinA = ThinR % ThinA
EmitResolving ==
    [][Thin => PrintT(ToJson([kind |-> "path", steps |-> hist',
                              owner |-> [p \in 1..M |-> Owner(d', p - 1)]]))]_vars
EmitPath == hist = <<>> \/ PrintT(ToJson([kind |-> "path", steps |-> hist,
                                         owner |-> [p \in 1..M |-> Owner(d, p - 1)]]))
=============================================================================
