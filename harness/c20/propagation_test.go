package c20

import (
	"context"
	"encoding/json"
	"errors"
	"fmt"
	"math/rand"
	"net/http"
	"net/http/httptest"
	"os"
	"strings"
	"testing"

	"verifharness/internal/abs"

	"github.com/grafana/dskit/middleware"
	"github.com/grafana/dskit/user"

	"google.golang.org/grpc"
	"google.golang.org/grpc/metadata"
)

// ---- behaviours printed by Propagation.tla ---------------------------------------------------

type propPost struct {
	At  string `json:"at"`
	Ctx int    `json:"ctx"`
	Hdr []int  `json:"hdr"`
	Md  []int  `json:"md"`
	Err string `json:"err"`
}

type propStep struct {
	A       string   `json:"a"`
	Pre     []int    `json:"pre"`
	Present bool     `json:"present"`
	Stale   int      `json:"stale"`
	Post    propPost `json:"post"`
}

type propBehaviour struct {
	Chan   string     `json:"chan"`
	Origin int        `json:"origin"`
	Hist   []propStep `json:"hist"`
}

// ---- concrete ids -------------------------------------------------------------------------------

// embedding maps the specification's abstract ids (1, 2, ...; 0 is always "") to byte strings.
type embedding struct {
	name string
	ids  map[int]string
}

func embeddings(seed int64) []embedding {
	r := rand.New(rand.NewSource(seed*104729 + 20))
	rnd := func(n int) string {
		b := make([]byte, n)
		for i := range b {
			b[i] = byte(r.Intn(256))
		}
		if len(b) > 0 && b[0] == 0 && n == 1 {
			b[0] = 1
		}
		return string(b)
	}
	long := strings.Repeat("x", 300)
	ra, rb := rnd(1+r.Intn(40)), rnd(1+r.Intn(40))
	if ra == rb {
		rb += "#"
	}
	return []embedding{
		{"plain", map[int]string{1: "tenant-a", 2: "tenant-b"}},
		{"multi-tenant+metadata", map[int]string{1: "a|b:k=v", 2: "a|b:k=w"}},
		{"nul/high/newline bytes", map[int]string{1: "\x00\xc3|:/=\n ", 2: "\x00\xc3|:/=\n"}},
		{"long, differing in the last byte", map[int]string{1: long + "1", 2: long + "2"}},
		{"prefix of one another, case variants", map[int]string{1: "Tenant", 2: "tenant"}},
		{"seeded random bytes", map[int]string{1: ra, 2: rb}},
	}
}

func (e embedding) str(id int) string {
	if id == 0 {
		return ""
	}
	return e.ids[id]
}

func (e embedding) strs(ids []int) []string {
	out := make([]string, len(ids))
	for i, id := range ids {
		out[i] = e.str(id)
	}
	return out
}

// ---- the implementation's side of one carrier ----------------------------------------------------

type carrier struct {
	at  string
	ctx context.Context // at == "ctx"
	hdr http.Header     // at == "http": the header of the request in flight
	md  metadata.MD     // at == "grpc": the outgoing metadata of the call in flight
}

const decoyKey = "x-verif-decoy"

type chanAPI struct {
	header      string
	extractCtx  func(context.Context) (string, error)
	injectCtx   func(context.Context, string) context.Context
	injectHTTP  func(context.Context, *http.Request) error
	extractHTTP func(*http.Request) (string, context.Context, error)
	errNo       error
	errDiff     error
}

func apiFor(ch string) chanAPI {
	if ch == "user" {
		return chanAPI{user.UserIDHeaderName, user.ExtractUserID, user.InjectUserID, user.InjectUserIDIntoHTTPRequest,
			user.ExtractUserIDFromHTTPRequest, user.ErrNoUserID, user.ErrDifferentUserIDPresent}
	}
	return chanAPI{user.OrgIDHeaderName, user.ExtractOrgID, user.InjectOrgID, user.InjectOrgIDIntoHTTPRequest,
		user.ExtractOrgIDFromHTTPRequest, user.ErrNoOrgID, user.ErrDifferentOrgIDPresent}
}

func (a chanAPI) classify(err error) string {
	switch {
	case err == nil:
		return ""
	case errors.Is(err, a.errNo):
		return "no_id"
	case errors.Is(err, a.errDiff):
		return "different_id"
	case errors.Is(err, user.ErrTooManyOrgIDs):
		return "too_many_ids"
	}
	return "other: " + err.Error()
}

// outcome of one implementation variant of a hop
type hopResult struct {
	variant string
	err     string
	next    carrier
}

type fakeServerStream struct {
	grpc.ServerStream
	ctx context.Context
}

func (f fakeServerStream) Context() context.Context { return f.ctx }

func baseCtx(a chanAPI, e embedding, stale int) context.Context {
	ctx := context.Background()
	if stale >= 0 {
		ctx = a.injectCtx(ctx, e.str(stale))
	}
	return ctx
}

// spellings of the header name a caller may have used for the values already on the request
func headerSpellings(h string) []string {
	return []string{h, strings.ToLower(h), strings.ToUpper(h)}
}

// runHop executes one specification action on the real code, in every implementation variant.
func runHop(ch string, a chanAPI, e embedding, cur carrier, st propStep, r *rand.Rand) ([]hopResult, error) {
	var out []hopResult
	switch st.A {
	case "CtxToHTTP":
		req, _ := http.NewRequest("GET", "http://verif.invalid/", nil)
		sp := headerSpellings(a.header)
		for _, v := range e.strs(st.Pre) {
			req.Header.Add(sp[r.Intn(len(sp))], v)
		}
		req.Header.Set(decoyKey, "decoy")
		err := a.injectHTTP(cur.ctx, req)
		res := hopResult{variant: "Inject" + strings.Title(ch) + "IDIntoHTTPRequest", err: a.classify(err)}
		if err == nil {
			res.next = carrier{at: "http", hdr: req.Header.Clone()}
			if req.Header.Get(decoyKey) != "decoy" {
				res.err = "other: unrelated header changed"
			}
		}
		out = append(out, res)

	case "HTTPToCtx":
		mk := func() *http.Request {
			req, _ := http.NewRequestWithContext(baseCtx(a, e, st.Stale), "GET", "http://verif.invalid/", nil)
			req.Header = cur.hdr.Clone()
			return req
		}
		id, ctx, err := a.extractHTTP(mk())
		res := hopResult{variant: "Extract" + strings.Title(ch) + "IDFromHTTPRequest", err: a.classify(err)}
		if err == nil {
			res.next = carrier{at: "ctx", ctx: ctx}
			if got, e2 := a.extractCtx(ctx); e2 != nil || got != id {
				res.err = "other: returned id differs from the id in the returned context"
			}
		}
		out = append(out, res)
		if ch == "org" {
			var seen context.Context
			called := false
			h := middleware.AuthenticateUser.Wrap(http.HandlerFunc(func(_ http.ResponseWriter, r *http.Request) {
				called = true
				seen = r.Context()
			}))
			rec := httptest.NewRecorder()
			h.ServeHTTP(rec, mk())
			res := hopResult{variant: "middleware.AuthenticateUser"}
			switch {
			case called && rec.Code == http.StatusOK:
				res.next = carrier{at: "ctx", ctx: seen}
			case !called && rec.Code == http.StatusUnauthorized:
				res.err = "no_id"
			default:
				res.err = fmt.Sprintf("other: called=%v status=%d", called, rec.Code)
			}
			out = append(out, res)
		}

	case "CtxToGRPC":
		ctx := cur.ctx
		md := metadata.Pairs(decoyKey, "decoy")
		if st.Present {
			md[strings.ToLower(user.OrgIDHeaderName)] = e.strs(st.Pre)
		}
		if st.Present || r.Intn(2) == 0 {
			ctx = metadata.NewOutgoingContext(ctx, md)
		}
		finish := func(variant string, outCtx context.Context, err error) {
			res := hopResult{variant: variant, err: a.classify(err)}
			if err == nil {
				omd, _ := metadata.FromOutgoingContext(outCtx)
				res.next = carrier{at: "grpc", md: omd.Copy()}
				if got, e2 := user.ExtractOrgID(outCtx); e2 != nil {
					res.err = "other: outgoing context lost the org id"
				} else if want, _ := user.ExtractOrgID(cur.ctx); got != want {
					res.err = "other: outgoing context carries another org id"
				}
			}
			out = append(out, res)
		}
		c1, err := user.InjectIntoGRPCRequest(ctx)
		finish("InjectIntoGRPCRequest", c1, err)
		var c2 context.Context
		err = middleware.ClientUserHeaderInterceptor(ctx, "/verif/M", nil, nil, nil,
			func(ic context.Context, _ string, _, _ interface{}, _ *grpc.ClientConn, _ ...grpc.CallOption) error {
				c2 = ic
				return nil
			})
		if err == nil && c2 == nil {
			err = errors.New("invoker not called")
		}
		finish("ClientUserHeaderInterceptor", c2, err)
		var c3 context.Context
		_, err = middleware.StreamClientUserHeaderInterceptor(ctx, &grpc.StreamDesc{}, nil, "/verif/S",
			func(sc context.Context, _ *grpc.StreamDesc, _ *grpc.ClientConn, _ string, _ ...grpc.CallOption) (grpc.ClientStream, error) {
				c3 = sc
				return nil, nil
			})
		if err == nil && c3 == nil {
			err = errors.New("streamer not called")
		}
		finish("StreamClientUserHeaderInterceptor", c3, err)

	case "GRPCToCtx":
		in := func() context.Context {
			return metadata.NewIncomingContext(baseCtx(a, e, st.Stale), cur.md.Copy())
		}
		id, ctx, err := user.ExtractFromGRPCRequest(in())
		res := hopResult{variant: "ExtractFromGRPCRequest", err: a.classify(err)}
		if err == nil {
			res.next = carrier{at: "ctx", ctx: ctx}
			if got, e2 := user.ExtractOrgID(ctx); e2 != nil || got != id {
				res.err = "other: returned id differs from the id in the returned context"
			}
		}
		out = append(out, res)

		var seen context.Context
		_, err = middleware.ServerUserHeaderInterceptor(in(), nil, &grpc.UnaryServerInfo{},
			func(hc context.Context, _ interface{}) (interface{}, error) {
				seen = hc
				return nil, nil
			})
		res = hopResult{variant: "ServerUserHeaderInterceptor", err: a.classify(err)}
		if err == nil {
			res.next = carrier{at: "ctx", ctx: seen}
		} else if seen != nil {
			res.err = "other: handler called although the interceptor refused"
		}
		out = append(out, res)

		var sseen context.Context
		err = middleware.StreamServerUserHeaderInterceptor(nil, fakeServerStream{ctx: in()}, &grpc.StreamServerInfo{},
			func(_ interface{}, ss grpc.ServerStream) error {
				sseen = ss.Context()
				return nil
			})
		res = hopResult{variant: "StreamServerUserHeaderInterceptor", err: a.classify(err)}
		if err == nil {
			res.next = carrier{at: "ctx", ctx: sseen}
		} else if sseen != nil {
			res.err = "other: handler called although the interceptor refused"
		}
		out = append(out, res)

	default:
		return nil, fmt.Errorf("unknown action %q", st.A)
	}
	return out, nil
}

// project maps a carrier of the implementation to the specification's post-state, through the
// inverse of the embedding ("?<bytes>" for a string that is none of the embedded ids).
func project(a chanAPI, e embedding, c carrier, errClass string) (propPost, string) {
	inv := func(s string) (int, bool) {
		if s == "" {
			return 0, true
		}
		for id, v := range e.ids {
			if v == s {
				return id, true
			}
		}
		return -2, false
	}
	p := propPost{At: c.at, Ctx: -1, Hdr: []int{}, Md: []int{}, Err: errClass}
	foreign := ""
	conv := func(vs []string) []int {
		out := []int{}
		for _, v := range vs {
			id, ok := inv(v)
			if !ok {
				foreign = v
			}
			out = append(out, id)
		}
		return out
	}
	switch c.at {
	case "ctx":
		if c.ctx == nil {
			return p, "nil context"
		}
		if s, err := a.extractCtx(c.ctx); err == nil {
			id, ok := inv(s)
			if !ok {
				foreign = s
			}
			p.Ctx = id
		}
	case "http":
		p.Hdr = conv(c.hdr.Values(a.header))
	case "grpc":
		p.Md = conv(c.md.Get(user.OrgIDHeaderName))
	}
	if errClass != "" {
		p.At = "rejected"
	}
	if foreign != "" {
		return p, fmt.Sprintf("id %q is none of the ids of this behaviour", foreign)
	}
	return p, ""
}

func samePost(a, b propPost) bool {
	eq := func(x, y []int) bool {
		if len(x) != len(y) {
			return false
		}
		for i := range x {
			if x[i] != y[i] {
				return false
			}
		}
		return true
	}
	return a.At == b.At && a.Ctx == b.Ctx && a.Err == b.Err && eq(a.Hdr, b.Hdr) && eq(a.Md, b.Md)
}

func startCarrier(a chanAPI, e embedding, st propStep) carrier {
	switch st.Post.At {
	case "ctx":
		ctx := context.Background()
		if st.Post.Ctx >= 0 {
			ctx = a.injectCtx(ctx, e.str(st.Post.Ctx))
		}
		return carrier{at: "ctx", ctx: ctx}
	case "http":
		h := http.Header{}
		for _, v := range e.strs(st.Post.Hdr) {
			h.Add(a.header, v)
		}
		return carrier{at: "http", hdr: h}
	default:
		md := metadata.MD{}
		if len(st.Post.Md) > 0 {
			md.Append(user.OrgIDHeaderName, e.strs(st.Post.Md)...)
		}
		return carrier{at: "grpc", md: md}
	}
}

// TestReplayPropagation: every behaviour Propagation.tla printed is executed on the real
// inject/extract functions and middlewares, once per id embedding; after every hop every
// implementation variant must be in the state the specification demands.
// VERIF_CORRUPT=n perturbs the expected post-state of the last hop of the n-th behaviour.
func TestReplayPropagation(t *testing.T) {
	in := envFor("VERIF_IN", "PROP")
	if in == "" {
		t.Skip("VERIF_IN not set")
	}
	corrupt := envIntFor("VERIF_CORRUPT", "PROP")
	res := &abs.Result{}
	embs := embeddings(abs.Seed())
	r := rand.New(rand.NewSource(abs.Seed()*31 + 20))
	hopsRun, variantsRun := 0, 0
	byAction := map[string]int{}
	err := abs.ReadNDJSON(in, func(line []byte) error {
		var b propBehaviour
		if err := json.Unmarshal(line, &b); err != nil {
			return err
		}
		if len(b.Hist) == 0 || b.Hist[0].A != "Start" {
			return fmt.Errorf("behaviour without Start")
		}
		res.Cases++
		if corrupt > 0 && res.Cases == corrupt {
			last := &b.Hist[len(b.Hist)-1].Post
			if last.At == "rejected" {
				last.Err = "corrupted"
			} else {
				last.At, last.Err, last.Ctx, last.Hdr, last.Md = "rejected", "no_id", -1, []int{}, []int{}
			}
		}
		a := apiFor(b.Chan)
		refused := false
		for _, e := range embs {
			p := guard(func() {
				cur := startCarrier(a, e, b.Hist[0])
				for i, st := range b.Hist[1:] {
					results, err := runHop(b.Chan, a, e, cur, st, r)
					if err != nil {
						res.Fatal = err.Error()
						return
					}
					hopsRun++
					byAction[st.A]++
					for _, hr := range results {
						variantsRun++
						got, note := project(a, e, hr.next, hr.err)
						if hr.err != "" {
							got = propPost{At: "rejected", Ctx: -1, Hdr: []int{}, Md: []int{}, Err: hr.err}
						}
						if note != "" || !samePost(got, st.Post) {
							res.Mismatch(abs.Mismatch{
								Sig:  fmt.Sprintf("propagation:%s/%s via %s want=%s/%s got=%s/%s", b.Chan, st.A, hr.variant, st.Post.At, st.Post.Err, got.At, got.Err),
								Case: map[string]any{"behaviour": b, "hop": i + 1, "embedding": e.name, "ids": map[string][]int{"1": s2b(e.ids[1]), "2": s2b(e.ids[2])}},
								Got:  got, Want: st.Post, Note: note,
							})
						}
					}
					if st.Post.At == "rejected" {
						refused = true
						return
					}
					// continue from the first variant that reached the expected state
					advanced := false
					for _, hr := range results {
						if hr.err == "" {
							cur = hr.next
							advanced = true
							break
						}
					}
					if !advanced {
						return
					}
				}
			})
			if p != "" {
				res.Mismatch(abs.Mismatch{Sig: "propagation:panic", Case: map[string]any{"behaviour": b, "embedding": e.name}, Got: p, Want: "no panic"})
			}
		}
		// non-trivial: the chain has a refusal, a pre-existing value or a stale id somewhere
		nt := refused
		for _, st := range b.Hist[1:] {
			if st.Present || st.Stale >= 0 {
				nt = true
			}
		}
		if nt {
			res.Nontrivial++
		}
		if res.Cases%331 == 1 {
			res.Sample(b)
		}
		return nil
	})
	if err != nil && res.Fatal == "" {
		res.Fatal = err.Error()
	}
	res.AddExtra("propagation_hops_executed", hopsRun)
	res.AddExtra("propagation_variant_calls", variantsRun)
	res.AddExtra("propagation_hops_by_action", byAction)
	res.AddExtra("propagation_embeddings", len(embs))
	writeResult(t, res, "propagation_replay")
}

// ---- code -> spec: recorded chains --------------------------------------------------------------

type propChain struct {
	Chan   string     `json:"chan"`
	Origin int        `json:"origin"`
	Start  propPost   `json:"start"`
	Steps  []propStep `json:"steps"`
	Emb    string     `json:"embedding"`
}

func randVals(r *rand.Rand, same int) []int {
	other := 1
	if same == 1 {
		other = 2
	}
	switch x := r.Intn(20); {
	case x < 8:
		return []int{}
	case x < 14 && same >= 0:
		return []int{same}
	case x < 15:
		return []int{other}
	case x < 16:
		return []int{0}
	case x < 17 && same >= 0:
		return []int{0, same}
	case x < 18 && same >= 0:
		return []int{same, other}
	case x < 19:
		return []int{other, r.Intn(3)}
	default:
		return []int{r.Intn(3), r.Intn(3)}
	}
}

// TestRecordPropagation: a seeded driver walks chains of random length through the real code and
// writes one line per chain to $VERIF_PTRACE; PropagationTrace.tla validates them.
// VERIF_CORRUPT_PTRACE=n perturbs the logged post-state of the last hop of the n-th chain.
func TestRecordPropagation(t *testing.T) {
	out := os.Getenv("VERIF_PTRACE")
	if out == "" {
		t.Skip("VERIF_PTRACE not set")
	}
	n := abs.EnvInt("VERIF_NCHAINS", 300)
	corrupt := envIntFor("VERIF_CORRUPT", "PTRACE")
	res := &abs.Result{}
	w, err := abs.NewNDJSONWriter(out)
	if err != nil {
		res.Fatal = err.Error()
		writeResult(t, res, "propagation_record")
		return
	}
	embs := embeddings(abs.Seed())
	r := rand.New(rand.NewSource(abs.Seed()*65537 + 20))
	totalHops, longest := 0, 0
	for c := 1; c <= n; c++ {
		e := embs[c%len(embs)]
		ch := "org"
		if r.Intn(4) == 0 {
			ch = "user"
		}
		a := apiFor(ch)
		chain := propChain{Chan: ch, Emb: e.name, Steps: []propStep{}}
		start := propStep{A: "Start", Post: propPost{Ctx: -1, Hdr: []int{}, Md: []int{}}}
		switch x := r.Intn(20); {
		case x < 14 || (x >= 17 && ch == "user"):
			start.Post.At = "ctx"
			start.Post.Ctx = []int{1, 2, 1, 2, 1, 2, 0, -1}[r.Intn(8)]
			chain.Origin = start.Post.Ctx
		case x < 17:
			start.Post.At = "http"
			start.Post.Hdr = randVals(r, 1+r.Intn(2))
			chain.Origin = -1
			if len(start.Post.Hdr) > 0 && start.Post.Hdr[0] != 0 {
				chain.Origin = start.Post.Hdr[0]
			}
		default:
			start.Post.At = "grpc"
			start.Post.Md = randVals(r, 1+r.Intn(2))
			chain.Origin = -1
			if len(start.Post.Md) == 1 {
				chain.Origin = start.Post.Md[0]
			}
		}
		chain.Start = start.Post
		maxLen := 1 + r.Intn(24)
		p := guard(func() {
			cur := startCarrier(a, e, start)
			for len(chain.Steps) < maxLen {
				st := propStep{Pre: []int{}, Stale: -1}
				curID := -1
				if cur.at == "ctx" {
					if s, err := a.extractCtx(cur.ctx); err == nil {
						for id := 0; id <= 2; id++ {
							if e.str(id) == s {
								curID = id
							}
						}
					}
				}
				switch cur.at {
				case "ctx":
					if ch == "org" && r.Intn(2) == 0 {
						st.A = "CtxToGRPC"
						if r.Intn(3) == 0 {
							st.Present = true
							st.Pre = randVals(r, curID)
							if r.Intn(2) == 0 && curID >= 0 {
								st.Pre = []int{curID}
							}
						}
					} else {
						st.A = "CtxToHTTP"
						if r.Intn(3) == 0 {
							st.Pre = randVals(r, curID)
						}
						st.Present = len(st.Pre) > 0
					}
				case "http":
					st.A = "HTTPToCtx"
					st.Stale = r.Intn(4) - 1
				case "grpc":
					st.A = "GRPCToCtx"
					st.Stale = r.Intn(4) - 1
				}
				results, err := runHop(ch, a, e, cur, st, r)
				if err != nil {
					res.Fatal = err.Error()
					return
				}
				hr := results[r.Intn(len(results))]
				post, _ := project(a, e, hr.next, hr.err)
				if hr.err != "" {
					post = propPost{At: "rejected", Ctx: -1, Hdr: []int{}, Md: []int{}, Err: hr.err}
				}
				st.Post = post
				chain.Steps = append(chain.Steps, st)
				if hr.err != "" {
					return
				}
				cur = hr.next
			}
		})
		if p != "" {
			res.Mismatch(abs.Mismatch{Sig: "propagation:panic", Case: chain, Got: p, Want: "no panic"})
			continue
		}
		if c == corrupt && len(chain.Steps) > 0 {
			last := &chain.Steps[len(chain.Steps)-1].Post
			if last.At == "rejected" {
				if last.Err == "no_id" {
					last.Err = "different_id"
				} else {
					last.Err = "no_id"
				}
			} else {
				last.At, last.Err, last.Ctx, last.Hdr, last.Md = "rejected", "no_id", -1, []int{}, []int{}
			}
		}
		if err := w.Write(chain); err != nil {
			res.Fatal = err.Error()
			break
		}
		totalHops += len(chain.Steps)
		if len(chain.Steps) > longest {
			longest = len(chain.Steps)
		}
		if len(chain.Steps) >= 4 {
			res.Nontrivial++
		}
		if c%101 == 1 {
			res.Sample(chain)
		}
	}
	if err := w.Close(); err != nil {
		res.Fatal = err.Error()
	}
	res.AddExtra("ptrace_chains", w.N)
	res.AddExtra("ptrace_hops", totalHops)
	res.AddExtra("ptrace_longest_chain", longest)
	writeResult(t, res, "propagation_record")
}
