\* Template: bin/check substitutes the @@..@@ fields (checks/c07.py CONFIGS). By hand, e.g.
\*   sed -e 's/@@NC@@/3/;s/@@OPS@@/2/;s/@@BACKENDS@@/{"consul","etcd","memberlist"}/;s/@@LIMITS@@/{10}/;s/@@MAXERR@@/1/' \
\*       -e 's/@@SECONDARIES@@/{"none"}/;s/@@DELETE@@/FALSE/;s/@@SAME@@/FALSE/;s/@@BAD@@/FALSE/;s/@@NOTHER@@/0/;s/@@NW@@/0/;s/@@EMIT@@/FALSE/;s/@@INV@@/Serial SeenChain NoLostNoPhantom SawCurrent/' MC.cfg > MC_x.cfg
CONSTANTS
  NC = @@NC@@
  OpsPer = @@OPS@@
  Backends = @@BACKENDS@@
  Limits = @@LIMITS@@
  MaxErr = @@MAXERR@@
  Secondaries = @@SECONDARIES@@
  WithDelete = @@DELETE@@
  WithSame = @@SAME@@
  WithBad = @@BAD@@
  NOther = @@NOTHER@@
  NW = @@NW@@
  Emit = @@EMIT@@
INIT Init
NEXT Next
VIEW view
INVARIANTS TypeOK AtMostOncePerCall MirrorSound WatchSound @@INV@@
PROPERTY FailureIsNoop
ACTION_CONSTRAINT EmitHist
CHECK_DEADLOCK FALSE
