CONSTANTS
  NS = 2
  NML = 1
  WH = {}
  WS = {}
  ParentCancels = FALSE
  DirectStops = FALSE
INIT MInit
NEXT MNext
INVARIANTS MTypeOK ViewIsLastDelivered QuiescentViewExact HealthyExact StoppedExact HealthyLatchExact MNoDoubleClose FailureReportedOnce MListenerOrder MNotifierNeverBlocks MWaitersExact StartResultExact
CHECK_DEADLOCK FALSE
