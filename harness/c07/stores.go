//go:build verif

package c07

import (
	"context"
	"fmt"
	"io"
	"reflect"
	"unsafe"

	"github.com/go-kit/log"
	"github.com/prometheus/client_golang/prometheus"

	"github.com/grafana/dskit/kv"
	"github.com/grafana/dskit/kv/consul"
	"github.com/grafana/dskit/kv/etcd"
	"github.com/grafana/dskit/kv/memberlist"
	"github.com/grafana/dskit/services"
)

// A variant is one way of putting a real kv.Client between the callers and one real store.
//
//	consul/bare        consul.NewInMemoryClientWithConfig (MaxCasRetries = the specification's Limit)
//	consul/prefix      kv.PrefixClient over the same
//	consul/metrics     kv.NewClient{Store: inmemory, Prefix} + registry = metrics(prefix(in-memory Consul))
//	etcd/bare          etcd.NewInMemoryClient
//	etcd/prefix        kv.PrefixClient over the same
//	memberlist/bare    memberlist.NewClient over a detached one-node KV (hook NewDetachedKVForVerif)
//	memberlist/prefix  kv.PrefixClient over the same
//	memberlist/metrics kv.NewClient{Store: memberlist, Prefix} + registry
//	multi/consul+memberlist, multi/memberlist+consul
//	                   kv.NewClient{Store: multi, mirroring on} = metrics(prefix(MultiClient(primary, secondary)))
//
// (The metrics wrapper and the MultiClient have unexported constructors; kv.NewClient can build
// them only over the process-wide in-memory Consul store and a memberlist KV.)
var variantsOf = map[string][]string{
	"consul/none":       {"consul/bare", "consul/prefix", "consul/metrics"},
	"etcd/none":         {"etcd/bare", "etcd/prefix"},
	"memberlist/none":   {"memberlist/bare", "memberlist/prefix", "memberlist/metrics"},
	"consul/memberlist": {"multi/consul+memberlist"},
	"memberlist/consul": {"multi/memberlist+consul"},
}

// fixedLimit: variants whose retry limit cannot be set by the harness (10): their CAS loop runs in
// the process-wide in-memory Consul client that package kv creates and keeps to itself.
func fixedLimit(variant string) bool {
	return variant == "consul/metrics" || variant == "multi/consul+memberlist"
}

// setUnexportedInt writes an unexported int field of the struct ptr points to (path of field
// names). The retry limits of the etcd client (Client.cfg.MaxRetries; NewInMemoryClient hard-codes
// the default) and of the memberlist KV (KV.maxCasRetries; the repository's own tests set it the
// same way from inside the package) have no exported setter; small limits are what makes
// "retries exhausted by conflicts alone" reachable in small state graphs. A missing field is an
// error (inconclusive run), never a silent default.
func setUnexportedInt(ptr interface{}, v int, path ...string) error {
	f := reflect.ValueOf(ptr)
	if f.Kind() != reflect.Ptr || f.IsNil() {
		return fmt.Errorf("setUnexportedInt: need a non-nil pointer, got %T", ptr)
	}
	f = f.Elem()
	for _, name := range path {
		if f.Kind() != reflect.Struct {
			return fmt.Errorf("setUnexportedInt(%T): %q is not in a struct", ptr, name)
		}
		f = f.FieldByName(name)
		if !f.IsValid() {
			return fmt.Errorf("setUnexportedInt(%T): no field %q", ptr, name)
		}
	}
	if f.Kind() != reflect.Int || !f.CanAddr() {
		return fmt.Errorf("setUnexportedInt(%T): field %v is not an addressable int", ptr, path)
	}
	reflect.NewAt(f.Type(), unsafe.Pointer(f.UnsafeAddr())).Elem().SetInt(int64(v))
	return nil
}

type store struct {
	variant string
	client  kv.Client                             // what the callers use
	inner   func(key string) (interface{}, error) // the primary store read directly (nil: none)
	second  func(key string) (interface{}, error) // the secondary store of a MultiClient (nil: none)
	close   func()
}

const pfx = "c07/"

var nop = log.NewNopLogger()

// initInMemory creates kv's process-wide in-memory Consul store. Must be called outside any
// synctest bubble: its ticker goroutine lives for the rest of the process.
func initInMemory() (kv.Client, error) {
	return kv.NewClient(kv.Config{Store: "inmemory"}, Codec{}, nil, nop)
}

func newMemberlistKV(ctx context.Context, limit int) (*memberlist.KV, func(), error) {
	var cfg memberlist.KVConfig
	cfg.Codecs = append(cfg.Codecs, Codec{})
	cfg.RetransmitMult = 1
	cfg.WatchPrefixBufferSize = 128 // the flag default; 0 would make prefix notifications rendezvous-only
	mkv := memberlist.NewDetachedKVForVerif(cfg, nop, func() int { return 1 })
	if err := setUnexportedInt(mkv, limit, "maxCasRetries"); err != nil {
		return nil, nil, err
	}
	if err := services.StartAndAwaitRunning(ctx, mkv); err != nil {
		return nil, nil, err
	}
	return mkv, func() { _ = services.StopAndAwaitTerminated(context.Background(), mkv) }, nil
}

func getter(c kv.Client, prefix string) func(string) (interface{}, error) {
	return func(key string) (interface{}, error) { return c.Get(context.Background(), prefix+key) }
}

// openStore builds the variant. Everything except the process-wide in-memory Consul store is
// created here, i.e. inside the caller's synctest bubble.
func openStore(ctx context.Context, variant string, limit int) (*store, error) {
	s := &store{variant: variant, close: func() {}}
	var closers []func()
	s.close = func() {
		for i := len(closers) - 1; i >= 0; i-- {
			closers[i]()
		}
	}
	closer := func(c io.Closer) { closers = append(closers, func() { _ = c.Close() }) }
	switch variant {
	case "consul/bare", "consul/prefix":
		c, cl := consul.NewInMemoryClientWithConfig(Codec{}, consul.Config{MaxCasRetries: limit}, nop, nil)
		closer(cl)
		s.client = c
		if variant == "consul/prefix" {
			s.client = kv.PrefixClient(c, pfx)
			s.inner = getter(c, pfx)
		}
	case "etcd/bare", "etcd/prefix":
		c, cl := etcd.NewInMemoryClient(Codec{}, nop)
		closer(cl)
		if err := setUnexportedInt(c, limit, "cfg", "MaxRetries"); err != nil {
			s.close()
			return nil, err
		}
		s.client = c
		if variant == "etcd/prefix" {
			s.client = kv.PrefixClient(c, pfx)
			s.inner = getter(c, pfx)
		}
	case "memberlist/bare", "memberlist/prefix":
		mkv, stop, err := newMemberlistKV(ctx, limit)
		if err != nil {
			return nil, err
		}
		closers = append(closers, stop)
		c, err := memberlist.NewClient(mkv, Codec{})
		if err != nil {
			s.close()
			return nil, err
		}
		s.client = c
		if variant == "memberlist/prefix" {
			s.client = kv.PrefixClient(c, pfx)
			s.inner = getter(c, pfx)
		}
	case "consul/metrics":
		raw, err := initInMemory()
		if err != nil {
			return nil, err
		}
		c, err := kv.NewClient(kv.Config{Store: "inmemory", Prefix: pfx}, Codec{}, prometheus.NewRegistry(), nop)
		if err != nil {
			return nil, err
		}
		s.client = c
		s.inner = getter(raw, pfx)
	case "memberlist/metrics":
		mkv, stop, err := newMemberlistKV(ctx, limit)
		if err != nil {
			return nil, err
		}
		closers = append(closers, stop)
		cfg := kv.Config{Store: "memberlist", Prefix: pfx}
		cfg.MemberlistKV = func() (*memberlist.KV, error) { return mkv, nil }
		c, err := kv.NewClient(cfg, Codec{}, prometheus.NewRegistry(), nop)
		if err != nil {
			s.close()
			return nil, err
		}
		raw, _ := memberlist.NewClient(mkv, Codec{})
		s.client = c
		s.inner = getter(raw, pfx)
	case "multi/consul+memberlist", "multi/memberlist+consul":
		mem, err := initInMemory()
		if err != nil {
			return nil, err
		}
		mkv, stop, err := newMemberlistKV(ctx, limit)
		if err != nil {
			return nil, err
		}
		closers = append(closers, stop)
		cfg := kv.Config{Store: "multi", Prefix: pfx}
		cfg.MemberlistKV = func() (*memberlist.KV, error) { return mkv, nil }
		cfg.Multi = kv.MultiConfig{Primary: "inmemory", Secondary: "memberlist", MirrorEnabled: true}
		if variant == "multi/memberlist+consul" {
			cfg.Multi.Primary, cfg.Multi.Secondary = "memberlist", "inmemory"
		}
		c, err := kv.NewClient(cfg, Codec{}, prometheus.NewRegistry(), nop)
		if err != nil {
			s.close()
			return nil, err
		}
		gl, _ := memberlist.NewClient(mkv, Codec{})
		s.client = c
		if variant == "multi/consul+memberlist" {
			s.inner, s.second = getter(mem, pfx), getter(gl, pfx)
		} else {
			s.inner, s.second = getter(gl, pfx), getter(mem, pfx)
		}
	default:
		return nil, fmt.Errorf("unknown variant %q", variant)
	}
	return s, nil
}
