"""C19 - cache wrappers never return wrong, deleted or expired data; versions never alias; memcached
server placement is deterministic, order-insensitive and append-stable.

spec/cache/CacheStack.tla models every stacking order of LRUCache / Versioned / SnappyCache over the
in-process mock backend, one action per client operation, computed layer by layer as the Go methods do.
TLC decides the property's clauses (action properties NeverWrong, NeverAfterDelete, NeverAfterDeadline,
NoAlias, AddSemantics, ...) on the complete reachable state graph of the one-view stacks and on all
histories up to a depth bound of the two-view (Versioned) stacks. The code is bound to it by replay:
  * cover:   one behaviour per transition of an exhaustive state graph (shortest path + transition +
             read sweep), executed on the real wrappers;
  * scripts: seeded random operation sequences over a larger alphabet (3 keys, 3 values, 3 views,
             capacities/TTLs 1..3); TLC prints every behaviour the specification allows for a script
             (Go map iteration order is a nondeterministic choice of the specification), the real run has to
             equal one of them.
After every operation the reply (bytes compared exactly, errors) and the complete backend content (keys,
bytes, expiry) are compared with the specification's.
spec/cache/JumpHash.tla decides OrderInsensitive / AppendStable for every key (= every jump set) and
every pair of server lists over N names; JumpHashTrace.tla validates PickServer results recorded from the
real MemcachedJumpHashSelector (natural sort, Deterministic, OrderInsensitive, AppendStable).
"""
import json
import os
import random
import re

PROPERTY = "C19"
META = {
    "level_text": "TLC decides the clauses of C19 as action properties of CacheStack.tla: on the complete reachable state graph (histories of any "
                  "length; time is 'seconds left', floored at 0) for every stack without a Versioned layer incl. two stacked LRU layers and foreign "
                  "undecodable backend entries, and on every history up to a depth bound for the stacking orders with a Versioned layer (quick: 8 of the 12, thorough: all; two views "
                  "of different versions over one shared lower stack), 2 keys x 2 values x ttl 1..2 x default ttl 1..2 x capacity 1..2. Every "
                  "transition of a generation graph and every behaviour allowed for seeded random scripts (3 keys/values/views, capacity and TTLs "
                  "1..3, map-iteration nondeterminism resolved by TLC as a set of allowed behaviours) is replayed on the real wrappers over "
                  "cache.NewMockCache() in a synctest bubble; replies (bytes exactly), errors and the full backend content are compared after "
                  "every operation. Placement: JumpHash.tla decided for all jump sets x all pairs of lists over N names; recorded PickServer "
                  "results of the real selector (lists of 1..65 names in naturally sorted, byte-wise sorted, reversed, rotated and shuffled input order, 5 address formats) validated by TLC. "
                  "Extension round 3: GetMulti (named step 'getplain') next to GetMultiWithError and Stop (named action Stop, clause StopIsInert) on every stack, in the transition "
                  "cover and in the scripts; the in-process backends MockCache / InstrumentedMockCache / ErroringMockCache(nil), NewSnappy vs NewCompression(CompressionConfig), "
                  "Name(), read options handed down to the backend, and ~300 concrete byte strings for the model values (all 1-2 byte strings over snappy's tag/varint bytes, sizes "
                  "around 16, 60, 256 and the 64 KiB block boundary, truncated/nested snappy blocks) rotated by seed. Placement: names listed several times (Dups; NatSort keeps "
                  "duplicates), SetServers SEQUENCES on one long-lived selector (grow, shrink from the middle, reorder, duplicates, two/one/no servers: any list of at most |universe| "
                  "names is decided by the jump sets learnt so far), an unresolvable SetServers changes nothing, Each stops at the first error. Negative controls: TLC must refute "
                  "a clause of C19 on 6 deliberately wrong wrapper models (MC_neg.cfg) and 2 wrong selectors (MC_jh_neg.cfg); JumpHashMC ASSUMEs reachability witnesses for the "
                  "implication-shaped clauses.",
    "level_note": "Backend failures: every client operation may find the backend failing (environment choice; the driver stacks the real "
                  "wrappers over the mock behind a switch that makes the chosen call return an error and do nothing); clauses FailedReadIsLocal "
                  "(GetMultiWithError returns exactly the local hits and the error iff the backend was needed), FailedWriteKeepsBackend, "
                  "NoErrorWithoutFault, and NeverWrong / NeverAfterDelete / NeverAfterDeadline weakened by 'limbo' (a write whose backend call failed "
                  "may or may not be visible until the next successful store or delete), decided for one-view stacks to depth 3 in the thorough tier "
                  "and exercised by 10% failing operations in every script (both tiers). TTL <= 0 (stored already expired) is in the scripts and in "
                  "the fault config. FailedSetInvisible (MC_faults_finding.cfg, not in the tiers) is violated by LRUCache.Set. Trusted: TLC; the mock backend (cache.MockCache) as the backend's semantics; the driver's mapping of model values/keys/versions to "
                  "concrete bytes (empty, 1 byte, 64 KiB compressible, 64 KiB random, a valid snappy block) and of numbered server names to integers "
                  "(natural order of the generated names = numeric order by construction). Encode/decode fidelity is exercised on those byte strings "
                  "only. A sequential client; asynchronous memcached writes and real network backends are out of scope. Not modelled: a backend whose reads take time (SlowMockCache: "
                  "back-fill uses the clock at call start; with instantaneous reads that is indistinguishable from the clock at back-fill time), a backend read that returns "
                  "data AND an error (ErroringMockCache with a non-nil error), MockCache.Flush. Read options and Name() are driver-side comparisons (no clause of C19).",
    "technique": "TLA+ specification (CacheStack.tla, JumpHash.tla) model-checked by TLC; TLC-generated behaviours replayed into the real code; "
                 "traces recorded from the real selector validated by TLC",
    "design_ref": "DESIGN.md 2 C19",
}

STACKS = {1: [], 2: ["lru"], 3: ["ver"], 4: ["snappy"], 5: ["lru", "ver"], 6: ["ver", "lru"], 7: ["lru", "snappy"],
          8: ["snappy", "lru"], 9: ["ver", "snappy"], 10: ["snappy", "ver"], 11: ["lru", "ver", "snappy"],
          12: ["lru", "snappy", "ver"], 13: ["ver", "lru", "snappy"], 14: ["ver", "snappy", "lru"],
          15: ["snappy", "lru", "ver"], 16: ["snappy", "ver", "lru"], 17: ["lru", "lru"], 18: ["lru", "ver", "lru"]}

CORE_ACTIONS = ("SetOp", "SetMultiOp", "AddOp", "GetOp", "DeleteOp", "Advance", "AdvanceOp", "PokeOp")
VARIANT_ACTIONS = ("SetAsyncOp", "SetMulti1Op", "GetPlainOp", "StopOp")
# deliberately wrong models (CONSTANT Wrong) -> the clauses of C19 of which TLC has to refute one
NEG_STACK = [("expiry_ge", {"NeverAfterDeadline"}), ("delete_keeps_local", {"NeverAfterDelete", "NeverWrong"}),
             ("add_always_local", {"NeverWrong", "AddSemantics", "NeverAfterDelete", "NeverAfterDeadline"}), ("backfill_long", {"NeverAfterDeadline"}),
             ("no_version", {"NoAlias", "NeverWrong", "NeverAfterDelete", "AddSemantics"}), ("decode_passthrough", {"NeverCorrupt"})]
NEG_JH = [("nosort", {"OrderInsensitive"}), ("offbyone", {"AppendStable"})]
PROPS = ["NeverWrong", "NeverAfterDelete", "NeverAfterDeadline", "NeverCorrupt", "ReadIsPeek", "NoAlias", "AddSemantics"]


def workers():
    w = os.environ.get("C19_WORKERS")
    return int(w) if w else None


def incon(why):
    import verif
    raise verif.Inconclusive(why)


# ---------------------------------------------------------------------------------------------- scripts
def gen_scripts(path, seed, n, depth):
    """Seeded random operation scripts: only WHICH operations are performed; outcomes come from TLC."""
    rnd = random.Random(seed * 1000003 + 19)
    keys, vals = ["k1", "k2", "k3"], ["a", "b", "c"]
    ids = sorted(STACKS)
    with open(path, "w") as f:
        for i in range(n):
            sid = ids[i % len(ids)]
            kinds = STACKS[sid]
            has_lru = "lru" in kinds
            views = 3 if "ver" in kinds else 1
            cap = rnd.choice([1, 1, 2, 3]) if has_lru else 1
            dttl = rnd.choice([1, 2, 3]) if has_lru else 1
            nk = rnd.choice([2, 3, 3])
            ops = []
            for _ in range(depth):
                x = rnd.random()
                w = rnd.randint(1, views)
                ks = rnd.sample(keys[:nk], rnd.choice([1, 1, 2, nk]))
                ttl = rnd.choice([1, 1, 1, 2, 2, 3, 3, 0, -1])        # TTL <= 0: stored already expired
                fail = rnd.random() < 0.10                            # the backend call of this operation fails
                if x < 0.30:       # GetMultiWithError, or GetMulti (the error is logged, not returned)
                    ops.append({"name": "get" if rnd.random() < 0.65 else "getplain", "w": w, "keys": ks, "vals": [], "ttl": 0, "fail": fail})
                elif x < 0.42:
                    ops.append({"name": "set", "w": w, "keys": ks[:1], "vals": [rnd.choice(vals)], "ttl": ttl, "fail": fail})
                elif x < 0.48:
                    ops.append({"name": "setasync", "w": w, "keys": ks[:1], "vals": [rnd.choice(vals)], "ttl": ttl, "fail": fail})
                elif x < 0.60:
                    ops.append({"name": "setmulti", "w": w, "keys": ks, "vals": [rnd.choice(vals) for _ in ks], "ttl": ttl, "fail": fail})
                elif x < 0.72:
                    ops.append({"name": "add", "w": w, "keys": ks[:1], "vals": [rnd.choice(vals)], "ttl": ttl, "fail": fail})
                elif x < 0.80:
                    ops.append({"name": "delete", "w": w, "keys": ks[:1], "vals": [], "ttl": 0, "fail": fail})
                elif x < 0.83:
                    ops.append({"name": "stop", "w": w, "keys": [], "vals": [], "ttl": 0, "fail": False})
                elif x < 0.95 or "snappy" not in kinds:
                    ops.append({"name": "advance", "w": 0, "keys": [], "vals": [], "ttl": rnd.choice([1, 1, 1, 2, 3]), "fail": False})
                else:
                    ops.append({"name": "poke", "w": w, "keys": ks[:1], "vals": [], "ttl": max(1, ttl), "fail": False})
            f.write(json.dumps({"stack": sid, "cap": cap, "dttl": dttl, "ops": ops}) + "\n")


def sort_by_sid(src, dst):
    rows = []
    with open(src) as f:
        for line in f:
            m = re.search(r'"sid":(\d+)', line[:40]) or re.search(r'"sid":(\d+)', line)
            rows.append((int(m.group(1)), line))
    rows.sort(key=lambda r: r[0])
    with open(dst, "w") as f:
        for _, line in rows:
            f.write(line)
    return len({r[0] for r in rows})


def negative_controls(ctx, quick, scale):
    """TLC must REFUTE a clause of C19 on each deliberately wrong model (otherwise the clauses would be vacuous on the
    universe). quick: two wrapper models and one selector model, rotated by seed; thorough: all of them."""
    stack, sel = NEG_STACK, NEG_JH
    if quick:
        stack = [NEG_STACK[(ctx.seed + j) % len(NEG_STACK)] for j in (0, 3)]
        sel = [NEG_JH[ctx.seed % len(NEG_JH)]]
    done = []
    for module, cfg, controls in (("CacheStack", "MC_neg.cfg", stack), ("JumpHashMC", "MC_jh_neg.cfg", sel)):
        for wrong, expect in controls:
            r = ctx.tlc("cache", module, cfg=cfg, subst={"@@WRONG@@": wrong}, workers=workers() or 4, timeout=600 * scale,
                        deadlock=False, count=False)
            # which clause TLC reports first may depend on the order in which it checks them: any clause of C19 qualifies,
            # `expect` (the clause the wrong model is aimed at) is recorded for information
            if r.timed_out or r.error or r.violated not in (set(PROPS) | {"OrderInsensitive", "AppendStable", "PickInList"}):
                incon("negative control %s/%s: TLC was expected to refute a clause of C19 (aimed at %s), got violated=%s timed_out=%s error=%s" % (
                    module, wrong, sorted(expect), r.violated, r.timed_out, (r.error or "")[:200]))
            done.append("%s->%s%s" % (wrong, r.violated, "" if r.violated in expect else " (aimed at %s)" % "/".join(sorted(expect))))
    ctx.extra["negative_controls_refuted"] = ", ".join(done)


# ---------------------------------------------------------------------------------------------- main
def run(ctx):
    quick = ctx.tier == "quick"
    selftest = os.environ.get("C19_SELFTEST", "")
    ctx.rule = ("cover: one behaviour per transition of the generation graph (distinct by construction); scripts: one per seeded random "
                "operation sequence; non-trivial = the behaviour contains a read that returns a value and a negative outcome (refused Add, "
                "miss of a key stored earlier, decode error); placement: one case per recorded list event, non-trivial = list of >= 2 servers")
    ctx.assumptions = ["cache.MockCache is the backend's semantics (Advance moves its clock; the bubble clock is moved by the same amount)",
                       "model values/keys/versions are mapped to fixed concrete byte strings by the driver",
                       "server name number m -> address string is strictly monotone w.r.t. natural order by construction"]
    ctx.exhaustive = True
    # development aid: C19_PHASES=decide,cover,scripts,placement (default: all of them)
    phases = set(os.environ.get("C19_PHASES", "decide,cover,scripts,placement").split(","))
    scale = float(os.environ.get("C19_TIMEOUT_SCALE", "1"))

    # 1. the specification decides the property ------------------------------------------------------
    allv, shared = "{3, 5, 6, 9, 10, 11, 12, 13, 14, 15, 16, 18}", "{6, 13, 14, 16}"
    if quick:
        decide = [("MC_quick_single.cfg", {}),
                  ("MC_views.cfg", {"@@STACKS@@": "{3, 5, 6, 10, 11, 13, 14, 16}", "@@MAXOPS@@": 2, "@@CAPS@@": "{1}"})]   # thorough: all 12
    else:
        decide = [("MC_single.cfg", {}),
                  ("MC_views.cfg", {"@@STACKS@@": allv, "@@MAXOPS@@": 3, "@@CAPS@@": "{1, 2}"}),
                  ("MC_views.cfg", {"@@STACKS@@": shared, "@@MAXOPS@@": 4, "@@CAPS@@": "{1}"}),
                  # backend failures as an environment choice per operation, TTL 0 (measured: 2,632,780 transitions)
                  ("MC_faults.cfg", {"@@STACKS@@": "{1, 2, 7, 8}", "@@TTLS@@": "{0, 1, 2}", "@@MAXOPS@@": 3})]
    for n, (cfg, subst) in enumerate(decide if "decide" in phases else []):
        cov = (not quick) and n < 2          # vacuity guard on the first two thorough configs (coverage costs time)
        r = ctx.tlc("cache", "CacheStack", cfg=cfg, subst=subst or None, workers=workers(), timeout=(2400 if not quick else 300) * scale,
                    deadlock=False, coverage=cov)
        ctx.require_tlc_ok(r, cfg)
        if cov:
            zero = [a for a in r.coverage_zero if a in CORE_ACTIONS and not (a == "PokeOp" and cfg == "MC_views.cfg")]
            if zero:
                incon("%s: actions with zero coverage: %s" % (cfg, zero))
    if "decide" in phases:
        # JumpHashMC = JumpHash + ASSUMEd reachability witnesses (sort matters, a key moves, a key stays, a duplicate owns two buckets)
        jh = [("MC_jh_quick.cfg", None), ("MC_jh_dups.cfg", {"@@N@@": 3})] if quick else \
             [("MC_jh_thorough.cfg", None), ("MC_jh_dups.cfg", {"@@N@@": 4})]
        for cfg, subst in jh:
            r = ctx.tlc("cache", "JumpHashMC", cfg=cfg, subst=subst, workers=workers(), timeout=900 * scale, deadlock=False)
            ctx.require_tlc_ok(r, "JumpHash " + cfg)
        negative_controls(ctx, quick, scale)

    # 2. spec -> code: transition cover ---------------------------------------------------------------
    covers = ["MC_cover_quick.cfg"] if quick else ["MC_cover_quick.cfg", "MC_cover_single.cfg", "MC_cover_views.cfg"]
    for cfg in (covers if "cover" in phases else []):
        cov = (not quick) and cfg == "MC_cover_quick.cfg"
        r = ctx.tlc("cache", "CacheStack", cfg=cfg, workers=1, timeout=780 * scale, deadlock=False, coverage=cov)
        ctx.require_tlc_ok(r, cfg)
        # vacuity guard for the operation variants that only the generation configs enable (Full = TRUE). With
        # capacity 1 every two-key SetMultiAsync depends on map order, so SetMultiOp is disabled there by
        # DetOnly (it is exercised by the scripts instead); no foreign writes without a Snappy layer.
        zero = [a for a in r.coverage_zero if a in CORE_ACTIONS + VARIANT_ACTIONS and a not in ("PokeOp", "SetMultiOp")]
        if cov and zero:
            incon("%s: actions with zero coverage: %s" % (cfg, sorted(set(zero))))
        if r.emitted == 0:
            incon("%s emitted no behaviours" % cfg)
        env = {"VERIF_IN": r.out_path, "VERIF_MODE": "cover", "VERIF_NVIEWS": 2}
        if selftest == "corrupt-replay":
            env["VERIF_CORRUPT"] = 17
        res = ctx.run_harness("c19", "^TestReplay$", env=env, timeout=780 * scale)
        if res.get("cases") != r.emitted:
            incon("%s: harness replayed %s of %d behaviours" % (cfg, res.get("cases"), r.emitted))
        ctx.absorb(res, cfg)

    # 3. spec -> code: scripts (larger alphabet, map-order nondeterminism as a set of allowed behaviours)
    if "scripts" in phases:
        run_scripts(ctx, quick, scale)
    if "placement" in phases:
        run_placement(ctx, quick, scale, selftest)
    return "model_checking"


def run_scripts(ctx, quick, scale):
    nscripts, depth = (900, 10) if quick else (6000, 12)
    sp = ctx.path("scripts.ndjson")
    gen_scripts(sp, ctx.seed, nscripts, depth)
    r = ctx.tlc("cache", "CacheStackScript", cfg="MC_script.cfg", extra_files={sp: "scripts.ndjson"}, workers=workers(),
                timeout=780 * scale, deadlock=False)
    ctx.require_tlc_ok(r, "scripts")
    sorted_path = ctx.path("script_behaviours.ndjson")
    nsid = sort_by_sid(r.out_path, sorted_path)
    if nsid != nscripts:
        incon("scripts: TLC produced behaviours for %d of %d scripts" % (nsid, nscripts))
    res = ctx.run_harness("c19", "^TestReplay$", env={"VERIF_IN": sorted_path, "VERIF_MODE": "script", "VERIF_NVIEWS": 3}, timeout=780 * scale)
    if res.get("cases") != nscripts:
        incon("scripts: harness replayed %s of %d scripts" % (res.get("cases"), nscripts))
    ctx.absorb(res, "scripts")



def run_placement(ctx, quick, scale, selftest):
    # 4. code -> spec: placement ------------------------------------------------------------------------
    chains, nkeys = (3, 40) if quick else (10, 200)
    first = None
    for attempt in (1, 2):
        trace = ctx.path("placement_%d.ndjson" % attempt)
        env = {"VERIF_TRACE": trace, "VERIF_CHAINS": chains, "VERIF_MAXN": 64, "VERIF_NKEYS": nkeys}
        if selftest == "corrupt-trace":
            env["VERIF_CORRUPT"] = 40
        res = ctx.run_harness("c19", "^TestPlacement$", env=env, timeout=600 * scale)
        nev = sum(1 for _ in open(trace))
        r = ctx.tlc("cache", "JumpHashTrace", extra_files={trace: "trace.ndjson"}, workers=1, deadlock=False, timeout=780 * scale, count=False)
        if r.violated == "Accepted":
            m = re.findall(r'verdict = "([^"]+)"', r.log)
            mi = re.findall(r"/\\ i = (\d+)", r.log) or re.findall(r"\bi = (\d+)", r.log)
            verdict = m[-1] if m else "?"
            idx = int(mi[-1]) if mi else 0
            if first is None:
                first = (verdict, idx)
                continue            # re-record once: only a rejection that repeats is a violation
            if first != (verdict, idx):
                incon("placement: rejection not reproducible (%s vs %s)" % (first, (verdict, idx)))
            lines = open(trace).read().splitlines()
            ev = json.loads(lines[idx - 1]) if 0 < idx <= len(lines) else {}
            fmt = ""
            for line in lines[:idx][::-1]:
                if '"reset"' in line:
                    fmt = json.loads(line).get("format", "")
                    break
            if verdict == "malformed":
                incon("placement: malformed trace at event %d" % idx)
            res.setdefault("mismatches", None)
            res["mismatches"] = (res.get("mismatches") or []) + [{
                "sig": "placement:%s format=%s" % (verdict, fmt),
                "case": {"event": idx, "order": ev.get("order"), "servers": ev.get("servers"), "internal": ev.get("internal"), "format": fmt},
                "got": {"picks": (ev.get("picks") or [])[:20]}, "want": "JumpHash.tla: " + verdict}]
            ctx.absorb(res, "placement")
            break
        ctx.require_tlc_ok(r, "JumpHashTrace")
        consumed = [json.loads(l).get("consumed") for l in open(r.out_path) if l.strip()]
        if not consumed or consumed[-1] != nev:
            incon("placement: TLC consumed %s of %d events" % (consumed[-1:] or "?", nev))
        if first is not None:
            incon("placement: rejection %s did not repeat" % (first,))
        ctx.absorb(res, "placement")
        break
