package c14

import (
	"fmt"
	"math"
	"math/rand"
	"os"
	"sort"
	"testing"
	"time"

	"verifharness/internal/abs"

	"github.com/grafana/dskit/ring"
)

// recLine is one recorded ring for spec/tokenranges/TokenRangesTrace.tla.
type recLine struct {
	Mode     string  `json:"mode"`
	Own      []int   `json:"own"`  // per key class: -1 gap, i owner of the token position
	Zone     []int   `json:"zone"` // per owner
	InclAll  [][]int `json:"incl_all"`
	InclSome [][]int `json:"incl_some"`
	LookAll  [][]int `json:"look_all"`
	LookSome [][]int `json:"look_some"`
	Tokens   [][]uint32 `json:"-"`
}

var boundaryPool = []uint32{0, 1, 2, 3, math.MaxUint32 - 3, math.MaxUint32 - 2, math.MaxUint32 - 1, math.MaxUint32}

func pickTokens(rnd *rand.Rand, n int, used map[uint32]bool) []uint32 {
	var out []uint32
	for len(out) < n {
		var v uint32
		switch rnd.Intn(4) {
		case 0:
			v = boundaryPool[rnd.Intn(len(boundaryPool))]
		case 1: // adjacent to an existing token
			if len(used) > 0 {
				for u := range used {
					v = u + 1
					if rnd.Intn(2) == 0 {
						v = u - 1
					}
					break
				}
			} else {
				v = rnd.Uint32()
			}
		default:
			v = rnd.Uint32()
		}
		if used[v] {
			continue
		}
		used[v] = true
		out = append(out, v)
	}
	sort.Slice(out, func(i, j int) bool { return out[i] < out[j] })
	return out
}

// classesOf builds the key classes of a concrete token set: every token is a class, every
// non-empty gap between consecutive tokens (and before the first / after the last) is a class.
func classesOf(all []uint32, rnd *rand.Rand) (isTok []bool, keys [][]uint32, tokClass map[uint32]int) {
	tokClass = map[uint32]int{}
	gap := func(lo, hi int64) { // exclusive bounds
		if hi-lo < 2 {
			return
		}
		ks := []uint32{uint32(lo + 1), uint32(hi - 1), uint32(lo + (hi-lo)/2)}
		for i := 0; i < 2; i++ {
			ks = append(ks, uint32(lo+1+rnd.Int63n(hi-lo-1)))
		}
		isTok = append(isTok, false)
		keys = append(keys, ks)
	}
	prev := int64(-1)
	for _, t := range all {
		gap(prev, int64(t))
		tokClass[t] = len(isTok)
		isTok = append(isTok, true)
		keys = append(keys, []uint32{t})
		prev = int64(t)
	}
	gap(prev, int64(math.MaxUint32)+1)
	return
}

func TestRecord(t *testing.T) {
	out := os.Getenv("VERIF_TRACE")
	if out == "" {
		t.Skip("VERIF_TRACE not set")
	}
	n := abs.EnvInt("VERIF_N", 100)
	rnd := rand.New(rand.NewSource(abs.Seed()*7919 + 14))
	w, err := abs.NewNDJSONWriter(out)
	if err != nil {
		t.Fatal(err)
	}
	res := &abs.Result{}
	now := time.Now()
	for it := 0; it < n; it++ {
		mode := "instance"
		if it%2 == 1 {
			mode = "partition"
		}
		nOwn := 1 + rnd.Intn(8)
		nz := 1
		if mode == "instance" {
			nz = 1 + rnd.Intn(3)
			if nz > nOwn {
				nz = nOwn
			}
		}
		zone := make([]int, nOwn)
		toks := make([][]uint32, nOwn)
		used := map[uint32]bool{}
		for i := 0; i < nOwn; i++ {
			if i < nz {
				zone[i] = i + 1 // every zone has at least one owner with tokens
				toks[i] = pickTokens(rnd, 1+rnd.Intn(8), used)
			} else {
				zone[i] = 1 + rnd.Intn(nz)
				toks[i] = pickTokens(rnd, rnd.Intn(9), used)
			}
		}
		var all []uint32
		ownerOf := map[uint32]int{}
		for i := range toks {
			for _, tk := range toks[i] {
				all = append(all, tk)
				ownerOf[tk] = i + 1
			}
		}
		sort.Slice(all, func(i, j int) bool { return all[i] < all[j] })
		isTok, keys, _ := classesOf(all, rnd)
		line := recLine{Mode: mode, Zone: zone}
		ti := 0
		for c := range isTok {
			if isTok[c] {
				line.Own = append(line.Own, ownerOf[all[ti]])
				ti++
			} else {
				line.Own = append(line.Own, -1)
			}
		}
		var includes func(owner int, key uint32) (bool, error)
		var lookup func(owner int, key uint32) bool
		var stop func()
		if mode == "partition" {
			desc := ring.NewPartitionRingDesc()
			for i := 0; i < nOwn; i++ {
				desc.AddPartition(int32(i+1), ring.PartitionActive, now)
				p := desc.Partitions[int32(i+1)]
				p.Tokens = toks[i]
				desc.Partitions[int32(i+1)] = p
			}
			pr, err := ring.NewPartitionRing(*desc)
			if err != nil {
				t.Fatalf("NewPartitionRing: %v", err)
			}
			ranges := map[int]ring.TokenRanges{}
			includes = func(o int, key uint32) (bool, error) {
				tr, ok := ranges[o]
				if !ok {
					var err error
					tr, err = pr.GetTokenRangesForPartition(int32(o))
					if err != nil {
						return false, err
					}
					ranges[o] = tr
				}
				return tr.IncludesKey(key), nil
			}
			lookup = func(o int, key uint32) bool {
				p, err := pr.ActivePartitionForKey(key)
				return err == nil && p == int32(o)
			}
			stop = func() {}
		} else {
			desc := ring.NewDesc()
			for i := 0; i < nOwn; i++ {
				id := fmt.Sprintf("i-%02d", i+1)
				desc.AddIngester(id, "addr-"+id, abs.ZoneName(zone[i]), toks[i], ring.ACTIVE, now, false, time.Time{}, nil)
			}
			r, stopRing, err := abs.NewRing(desc, ring.Config{ReplicationFactor: nz, ZoneAwarenessEnabled: true, HeartbeatTimeout: time.Hour, SubringCacheDisabled: true})
			if err != nil {
				t.Fatalf("NewRing: %v", err)
			}
			ranges := map[int]ring.TokenRanges{}
			includes = func(o int, key uint32) (bool, error) {
				tr, ok := ranges[o]
				if !ok {
					var err error
					tr, err = r.GetTokenRangesForInstance(fmt.Sprintf("i-%02d", o))
					if err != nil {
						return false, err
					}
					ranges[o] = tr
				}
				return tr.IncludesKey(key), nil
			}
			lookup = func(o int, key uint32) bool {
				rs, err := r.Get(key, ring.WriteNoExtend, nil, nil, nil)
				if err != nil {
					return false
				}
				id := fmt.Sprintf("i-%02d", o)
				for _, inst := range rs.Instances {
					if inst.Id == id {
						return true
					}
				}
				return false
			}
			stop = stopRing
		}
		for o := 1; o <= nOwn; o++ {
			ia, is, la, ls := []int{}, []int{}, []int{}, []int{}
			for c := range keys {
				allI, someI, allL, someL := true, false, true, false
				for _, k := range keys[c] {
					inc, err := includes(o, k)
					if err != nil {
						res.Mismatch(abs.Mismatch{Sig: "record:" + mode + ":error", Case: line, Got: err.Error(), Want: "ranges"})
						inc = false
					}
					allI = allI && inc
					someI = someI || inc
					lk := lookup(o, k)
					allL = allL && lk
					someL = someL || lk
				}
				if allI {
					ia = append(ia, c)
				}
				if someI {
					is = append(is, c)
				}
				if allL {
					la = append(la, c)
				}
				if someL {
					ls = append(ls, c)
				}
			}
			line.InclAll = append(line.InclAll, ia)
			line.InclSome = append(line.InclSome, is)
			line.LookAll = append(line.LookAll, la)
			line.LookSome = append(line.LookSome, ls)
		}
		stop()
		if err := w.Write(line); err != nil {
			t.Fatal(err)
		}
		res.Cases++
		if nOwn > 1 {
			res.Nontrivial++
		}
		if it < 2 {
			res.Sample(line)
		}
	}
	if err := w.Close(); err != nil {
		t.Fatal(err)
	}
	res.Write(t)
}
