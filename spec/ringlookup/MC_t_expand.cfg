\* t_expand: ignore-unhealthy strategy with per-call replication factors 1..5 over configured 1..2: 4 single-token instances, zones 0..2, ACTIVE/JOINING x {edge,stale}
\* (generated from UNIVERSES in checks/ringlookup_common.py: python3 checks/ringlookup_common.py --write-cfgs)
CONSTANTS
  NK = 5
  Gaps = {2}
  N = 4
  MaxTok = 1
  MaxIdle = 0
  Z = 2
  StateSet = {"ACTIVE", "JOINING"}
  HbSet = {"edge", "stale"}
  RFMax = 2
  Canon = 2
  WithRemove = FALSE
  Excl = {}
  EmitOn = TRUE
  EmitSets = FALSE
  XMax = 5
INIT Init
NEXT Next
VIEW View
INVARIANTS TypeOK SizeOK ZoneOK ClockwiseFirst SlackExact WalkDefsAgree QuorumIntersection ExpandedOK Emit
PROPERTIES MinimalDisruption
CHECK_DEADLOCK FALSE
