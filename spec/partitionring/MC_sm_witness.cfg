CONSTANTS
  NP = 2
  NL = 2
  NO = 2
  MaxClock = 6
  AgeCap = 2
  Multi = FALSE
  LCfg <- Cfg2q
  TokOf <- Tok2
  Homes <- Homes2q
  WaitModes = {}
  LockParts = {1}
  ReqStates = {"P", "A", "I"}
INIT Init
NEXT Next
INVARIANTS @@WIT@@
CHECK_DEADLOCK FALSE
