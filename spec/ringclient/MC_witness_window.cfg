\* non-vacuity witness: NeverLbHitAtOtherTime is EXPECTED to be violated (the situation it denies is reachable)
CONSTANTS
  Inst = {1, 2}
  Ident = {1}
  Sizes = {1}
  Lookbacks = {1}
  Times = {2, 3, 4, 5}
  Readers = {}
  MaxUpd = 1
  ZoneAware = FALSE
  Addrs = {1, 2}
  Zones = {1, 2}
  Toks = {0, 1}
  Stamps = {0, 2, 3}
  States = {"ACTIVE", "LEAVING"}
  Beats = {1, 2}
  Compute <- MCCompute
  InitDescs <- WideInitDescs
INIT Init
NEXT Next
INVARIANT NeverLbHitAtOtherTime
