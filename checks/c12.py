"""C12 - shuffle shards: deterministic, right-sized, stable; look-back is a superset.

spec/shuffleshard:
  (a) white box  ShuffleShard.tla (+ ShuffleShardMC / PartitionShardMC): the walk with the pseudo-random
      start positions as an explicit input; TLC decides SizeFormula, NoReadOnly, Monotone, Consistency and
      LookbackSuperset for EVERY start sequence over small rings and short histories of ring changes.
  (b) black box  ShardHistory.tla: the same clauses (ShardProps.tla) as relations between observed answers;
      harness/c12 TestRecord records histories from real ring.Ring / ring.PartitionRing clients under a
      synctest clock and TLC validates them (ShardHistoryTrace.tla).
  (a) is bound to the code by concretised cases (real start sequences from shard.ShuffleShardSeed + math/rand,
      rank-compressed): TLC evaluates Shard/PShard (ShardReplay.tla), harness/c12 TestCompare compares with the
      real answers; a difference there is model drift (inconclusive), not a violation.
"""
import json
import os

import verif

PROPERTY = "C12"
META = {
    "level_text": "TLC decides every clause (right size per zone, no read-only member, monotone in the size, at most one member in and "
                  "one out when one instance/partition is added or removed with the zones unchanged, look-back superset over every "
                  "history of up to 2 (quick) / 3 (thorough) ring changes) on the shuffle-shard walk for EVERY sequence of start positions "
                  "over all rings of <=4-5 instances x <=2 tokens, <=2-3 zones, zone-awareness on/off, sizes 0..ring size+1, and all partition rings "
                  "of <=3-4 partitions in all states. The same clause predicates, as relations between observed answers, validate histories "
                  "recorded from the real Ring/PartitionRing clients (small rings enumerated systematically, random rings up to 40 instances x "
                  "128 tokens x 4 zones and 30 partitions; a long-lived watching client and a second independently built client; instances in "
                  "every state, state/heartbeat-only updates that must not change any answer, two changes in one second, re-registration under the "
                  "same identifier with the same tokens, size math.MaxInt). Subrings are ring contents of their own (SubQuery): shards taken from "
                  "shards of consecutive sizes, from a look-back subring, from GetSubringForOperationStates and from an independently built ring "
                  "holding exactly those members must agree, obey every clause on the restricted view, and differ by at most one member between "
                  "two subrings one instance apart (instance and partition rings). Six negative-control / witness configs (MC_neg_*, MC_wit_*; each refuted by TLC when run by hand) are run only with VERIF_C12_NEG=1. "
                  "The walk model is replayed against the real code on concretised cases with the code's own start sequences.",
    "level_note": "Exhaustive only within the stated bounds; the recorded histories are samples. Trusted: TLC, the rank compression of tokens and "
                  "start values (harness/c12 startsFor), the recorder's time convention (change stamped t happens at t+1/2, query at now+1/4). "
                  "Consistency and the look-back clause are required only between rings with the same set of zones (the per-zone quota depends on "
                  "the number of zones); an identifier of a removed instance is reused only with the same tokens and zone. Look-back on subrings, "
                  "ShuffleShardSize/ShuffleShardExpectedInstances (compared Go-side with the shard sizes only) and the subring caches (C13) are not "
                  "part of the specification. A request of math.MaxInt instances appears as size 1000000 in traces (TLC integers are 32-bit).",
    "technique": "TLA+ specifications (ShuffleShard*.tla white box, ShardHistory.tla black box) model-checked by TLC; traces recorded from the "
                 "real code validated by TLC; TLC-evaluated concretised cases compared with the real code",
    "design_ref": "DESIGN.md 2 C12",
}

WORKERS = int(os.environ.get("VERIF_TLC_WORKERS", "8"))
TLC_TIMEOUT = int(os.environ.get("VERIF_C12_TLC_TIMEOUT", "1500"))   # raise on an oversubscribed machine


def model_check(ctx):
    """(a): TLC decides the clauses on the white-box walk. A violation is a specification-level
    counterexample: it is handed to the harness to be concretised; unreproduced => inconclusive."""
    if ctx.tier == "quick":
        runs = [("ShuffleShardMC", "MC_walk_quick.cfg"), ("ShuffleShardMC", "MC_unbal_quick.cfg"),
                ("ShuffleShardMC", "MC_lookback_quick.cfg"), ("PartitionShardMC", "MC_part_quick.cfg")]
    else:
        runs = [("ShuffleShardMC", "MC_walk_thorough.cfg"), ("ShuffleShardMC", "MC_walk4_thorough.cfg"),
                ("ShuffleShardMC", "MC_walk3_thorough.cfg"), ("ShuffleShardMC", "MC_lookback_thorough.cfg"),
                ("ShuffleShardMC", "MC_lookback4_thorough.cfg"), ("PartitionShardMC", "MC_part_thorough.cfg"),
                ("PartitionShardMC", "MC_part4_thorough.cfg"),
                ("ShuffleShardMC", "MC_walk_quick.cfg"), ("ShuffleShardMC", "MC_unbal_quick.cfg"),
                ("ShuffleShardMC", "MC_lookback_quick.cfg"), ("PartitionShardMC", "MC_part_quick.cfg")]
    for module, cfg in runs:
        # vacuity guard (thorough tier): the two configs in which every action can fire
        cov = ctx.tier == "thorough" and cfg in ("MC_lookback_quick.cfg", "MC_part_quick.cfg")
        r = ctx.tlc("shuffleshard", module, cfg=cfg, timeout=TLC_TIMEOUT, workers=WORKERS, coverage=cov)
        if r.violated and r.emitted:
            concretise(ctx, r, cfg)
        ctx.require_tlc_ok(r, cfg)
        if cov and r.coverage_zero:
            acts = [a for a in r.coverage_zero if a in ("Extend", "Start", "Join", "Leave", "SetReadOnly",
                                                        "AddPartition", "SwitchState", "RemovePartition")]
            if acts:
                raise verif.Inconclusive("%s: actions never taken: %s" % (cfg, acts))
    if os.environ.get("VERIF_C12_NEG") == "1":   # not in the tiers yet: refuted by hand-run TLC, the driver path is unverified
        negative_controls(ctx)


# negative controls and reachability witnesses: TLC must REFUTE these (else the clauses could hold vacuously
# or the model checker could be blind to the clause); each is < 300 states
MUST_FAIL = [("MC_neg_zonechange.cfg", ("LookbackSuperset",)),     # the zone-change exemption is necessary (DESIGN 8.3 observation is reachable)
             ("MC_neg_ext.cfg", ("LookbackSuperset",)),            # a walk that stops at a read-only / recently switched instance
             ("MC_neg_inc.cfg", ("SizeFormula", "NoReadOnlyMembers")),   # a walk that does not pass read-only instances
             ("MC_wit_extended.cfg", ("NeverExtended",)),          # look-back answers larger than the plain shard exist
             ("MC_wit_exhausted.cfg", ("NeverExhausted",)),        # exhausted zones / rings exist
             ("MC_wit_consistency.cfg", ("NeverInconsistentPair",))]   # one-apart rings with different shards exist


def negative_controls(ctx):
    for cfg, want in MUST_FAIL:
        r = ctx.tlc("shuffleshard", "ShuffleShardMC", cfg=cfg, timeout=TLC_TIMEOUT, workers=1, count=False)
        if r.timed_out or r.error and not r.violated:
            ctx.require_tlc_ok(r, cfg)
        if r.violated not in want:
            raise verif.Inconclusive("%s: TLC was expected to refute %s, got %s" % (cfg, "/".join(want), r.violated))
    ctx.extra["c12_negative_controls_refuted"] = len(MUST_FAIL)


def concretise(ctx, r, cfg):
    """A counterexample of the white-box model: search identifiers whose real start sequence equals the
    counterexample's and replay on the code (harness/c12 TestConcretise)."""
    res = ctx.run_harness("c12", "^TestConcretise$", env={"VERIF_IN": r.out_path}, timeout=600)
    ctx.absorb(res, "concretised counterexample of " + cfg)
    if not res.get("mismatches"):
        raise verif.Inconclusive("%s: TLC violated %s on the walk model; not reproduced on the code (%s)" % (
            cfg, r.violated, json.dumps(res.get("extra", {}))[:300]))


def record_validate(ctx, part, gen=None):
    """Record histories from the real code and validate them with TLC. gen = (cases, concrete, n, holder): also
    generate the concretised walk cases in the same `go test` invocation and evaluate them with TLC (ShardReplay)
    in a second JVM while the trace is being validated (quick tier: saves a link step and a JVM start)."""
    trace = ctx.path("trace_%s_%d.ndjson" % (part, ctx._nrun))
    conc = trace + ".concrete"
    env = {"VERIF_TRACE": trace, "VERIF_C12_PART": "" if part == "all" else part, "VERIF_TRACE_CONCRETE": conc}
    pattern = "^TestRecord$"
    if gen:
        cases, gconc, n, holder = gen
        holder["gen_out"] = ctx.path("gen_%d.json" % ctx._nrun)
        env.update({"VERIF_CASES": cases, "VERIF_CONCRETE": gconc, "VERIF_NCASES": n, "VERIF_OUT_GEN": holder["gen_out"]})
        pattern = "^(TestRecord|TestGenCases)$"
    res = ctx.run_harness("c12", pattern, env=env, timeout=1200)
    if res.get("fatal"):
        raise verif.Inconclusive("recorder: %s" % res["fatal"])
    nev = int(res.get("extra", {}).get("c12_trace_events", 0))
    if nev == 0:
        raise verif.Inconclusive("recorder wrote no events")
    th = None
    if gen:
        try:
            g = json.load(open(holder["gen_out"]))
        except Exception as ex:
            raise verif.Inconclusive("case generator wrote no result: %s" % ex)
        if g.get("fatal"):
            raise verif.Inconclusive("case generator: %s" % g["fatal"])
        import threading
        import time

        def replay_tlc():
            try:
                holder["tlc"] = ctx.tlc("shuffleshard", "ShardReplay", extra_files={cases: "cases.ndjson"}, workers=1,
                                        deadlock=False, timeout=TLC_TIMEOUT, count=False)
            except Exception as ex:          # reported by the caller
                holder["tlc_error"] = ex
        th = threading.Thread(target=replay_tlc)
        th.start()
        time.sleep(0.5)                      # let it take its run directory first
    try:
        r = ctx.tlc("shuffleshard", "ShardHistoryTrace", extra_files={trace: "trace.ndjson"}, workers=1,
                    deadlock=False, timeout=TLC_TIMEOUT, count=False)
    finally:
        if th:
            th.join()
    reports = verif.read_ndjson(r.out_path) if r.emitted else []
    malformed = [x for x in reports if x.get("what") == "malformed"]
    if malformed:
        raise verif.Inconclusive("recorder produced an ill-timed trace: %s" % json.dumps(malformed[0])[:300])
    if r.timed_out or r.error or (r.violated and not reports):
        ctx.require_tlc_ok(r, "trace validation (%s)" % part)
        raise verif.Inconclusive("trace validation (%s): %s" % (part, r.violated))
    if r.distinct != nev + 1:
        raise verif.Inconclusive("trace validation (%s): %d of %d events consumed" % (part, r.distinct - 1, nev))
    for rep in reports:
        rep["concrete"] = concrete_rings(conc, rep.get("line", 0))
    return res, reports


def concrete_rings(path, line):
    """The concrete content (tokens, zones, timestamps) of the ring version a rejected answer was given on, and of the one before."""
    last = []
    try:
        with open(path) as f:
            for ln in f:
                d = json.loads(ln)
                if d.get("line", 0) > line:
                    break
                if len(d.get("members", [])) > 12:     # keep replay files readable
                    for m in d["members"]:
                        if len(m.get("tokens", [])) > 8:
                            m["tokens"] = m["tokens"][:8] + ["... %d tokens; re-run replay_cmd for all" % len(m["tokens"])]
                last = (last + [d])[-2:]
    except Exception as ex:
        return {"error": str(ex)}
    return {"ring": last[-1] if last else None, "previous_ring": last[-2] if len(last) > 1 else None}


def sig_of(rep, f):
    q = f.get("q", {})
    return "%s:%s%s" % (rep.get("kind"), f.get("clause"), " size<=0" if q.get("size", 1) <= 0 else "")


def validate_direction(ctx, gen=None):
    # quick tier: small and large histories in one recording and one TLC run; thorough: two runs.
    # VERIF_C12_PARTS (development knob): "small", "large" or "small,large"
    default = "all" if ctx.tier == "quick" else "small,large"
    parts = [x for x in os.environ.get("VERIF_C12_PARTS", default).split(",") if x]
    for part in parts:
        res, reports = record_validate(ctx, part, gen=gen if part == parts[0] else None)
        if reports:
            # triage (DESIGN 1.4): re-record once with the same seed; only a repeating rejection is a violation
            res2, reports2 = record_validate(ctx, part)
            key = lambda reps: sorted((x.get("line"), sorted(f.get("clause") for f in x["info"]["failures"])) for x in reps)
            if key(reports) != key(reports2):
                raise verif.Inconclusive("trace rejection not reproducible with the same seed (%s)" % part)
        ctx.absorb(res, "recorded histories (%s)" % part)
        for rep in reports:
            for f in rep["info"]["failures"]:
                ctx.disagreement({"sig": sig_of(rep, f),
                                  "case": {"trace_line": rep.get("line"), "kind": rep.get("kind"), "za": rep.get("za"),
                                           "now": rep["info"].get("now"), "client": rep["info"].get("client"),
                                           "ring": rep["info"].get("view"), "ring_stamp": rep["info"].get("stamp"), "query": f.get("q"),
                                           "concrete": rep.get("concrete")},
                                  "got": f.get("q", {}).get("S"),
                                  "want": "clause %s of ShardHistory.tla; conflicting answers / required members: %s" % (
                                      f.get("clause"), json.dumps(f.get("other"))[:1500])},
                                 "recorded histories (%s)" % part)


def replay_direction(ctx, cases, conc, n, holder=None):
    if holder and holder.get("tlc_error"):
        raise verif.Inconclusive("ShardReplay: %r" % (holder["tlc_error"],))
    if holder and holder.get("tlc"):
        r = holder["tlc"]                      # already evaluated next to the trace validation
    else:
        res = ctx.run_harness("c12", "^TestGenCases$", env={"VERIF_CASES": cases, "VERIF_CONCRETE": conc, "VERIF_NCASES": n}, timeout=600)
        if res.get("fatal"):
            raise verif.Inconclusive("case generator: %s" % res["fatal"])
        r = ctx.tlc("shuffleshard", "ShardReplay", extra_files={cases: "cases.ndjson"}, workers=1, deadlock=False, timeout=TLC_TIMEOUT, count=False)
    ctx.require_tlc_ok(r, "ShardReplay")
    if r.emitted != n:
        raise verif.Inconclusive("ShardReplay evaluated %d of %d cases" % (r.emitted, n))
    exp = r.out_path
    if os.environ.get("VERIF_CORRUPT") == "expected":
        lines = open(exp).read().splitlines()
        for i, ln in enumerate(lines):
            d = json.loads(ln)
            big = [s for s in d["S"] if len(s) > 1]
            if big:
                big[0].pop()
                lines[i] = json.dumps(d)
                break
        open(exp, "w").write("\n".join(lines) + "\n")
    res = ctx.run_harness("c12", "^TestCompare$", env={"VERIF_IN": exp, "VERIF_CONCRETE": conc}, timeout=900)
    mism = res.get("mismatches") or []
    res["mismatches"] = []
    ctx.absorb(res, "concretised walk cases")
    if mism:
        # the white-box model and the code disagree: the mechanism changed (or the model is wrong).
        # Not a property violation by itself - the black-box direction decides that.
        ctx.extra["c12_model_drift"] = [{"sig": m.get("sig"), "case_idx": (m.get("case") or {}).get("idx"),
                                         "tenant": (m.get("case") or {}).get("tenant"), "got": m.get("got"), "want": m.get("want")}
                                        for m in mism[:5]]
        ctx.inconclusive_note("model drift: %d concretised case(s) where the real code's members differ from the walk of "
                              "ShuffleShard.tla (first: %s)" % (res.get("extra", {}).get("mismatches_total", len(mism)), mism[0].get("sig")))


def run(ctx):
    ctx.rule = ("a case is one recorded history (a ring + 3-9 changes; 2-3 identifiers x every size 0..2n+zones (small zone-aware rings: every "
                "split of n<=6 instances over <=3 zones) / 0..n+2 (other small rings) / 10 sizes (large rings); plain + look-back queries before each "
                "change, in the very second of the change and one second later; a watching client and a second independently built client; shards of "
                "<=4 (thorough 6) subrings of each version for every size 0..|subring|+1) or one "
                "concretised walk case (ring x identifier x sizes x look-back periods); non-trivial = look-back answers strictly larger than the plain "
                "shard (history) / a shard that is a proper non-empty subset of the ring (walk case); distinct = distinct TLC states of the exhaustive walk models")
    ctx.assumptions = ["rank compression of tokens and start values (harness/c12 startsFor)",
                       "time convention: a change stamped t happens at t+1/2; a query with now=T is issued at T+1/4 (late=0) or right after the change stamped T (late=1)",
                       "Consistency / LookbackSuperset only between rings with the same set of zones; an instance id is reused only with the same tokens and zone",
                       "a request of math.MaxInt instances is logged as size 1000000",
                       "every instance / partition has at least one token"]
    ctx.exhaustive = True
    only = [x for x in os.environ.get("VERIF_C12_ONLY", "").split(",") if x]   # development knob: mc,validate,replay
    if "mc" in only:
        model_check(ctx)
    cases, conc = ctx.path("cases.ndjson"), ctx.path("concrete.ndjson")
    n = 150 if ctx.tier == "quick" else 1500
    holder = {}
    both = not only or ("validate" in only and "replay" in only)

    def code_side():
        if not only or "validate" in only:
            validate_direction(ctx, gen=(cases, conc, n, holder) if both and ctx.tier == "quick" else None)
        if not only or "replay" in only:
            replay_direction(ctx, cases, conc, n, holder)

    if only:
        code_side()
    else:
        # the recorder, the (single-threaded) trace validation and the replay run next to the
        # (multi-worker) exhaustive model checking
        import threading
        import time
        failed = []

        def side():
            try:
                code_side()
            except BaseException as ex:      # re-raised in the main thread
                failed.append(ex)
        th = threading.Thread(target=side)
        th.start()
        time.sleep(1.0)
        try:
            model_check(ctx)
        finally:
            th.join()
        if failed:
            raise failed[0]
    if only:
        ctx.inconclusive_note("partial run (VERIF_C12_ONLY=%s)" % ",".join(only))
    return "model_checking"
