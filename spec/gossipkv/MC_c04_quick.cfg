\* C04 quick: 2 nodes, 1 entry id, clock 0..3, retention 2 s, 3 CAS (heartbeat / state change / removal
\* on any node), every packet ever gossiped deliverable forever.
CONSTANTS
  N = 2
  NI = 1
  NK = 1
  MaxClock = 3
  Retention = 2
  T = 1
  MaxCas = 3
  MaxFaults = 0
  LiveStates = {"ACTIVE", "LEAVING"}
  WatchNodes = {1, 2}
  HoldNodes = {}
  AllowRestart = FALSE
  AllowGarbage = FALSE
  AllowPartition = FALSE
  AllowJunkPP = FALSE
  GateNodes = {}
  InboxCap = 1
  VersionTest = TRUE
  KeyTest = TRUE
  MaxDel = 0
  ObsoleteTimeout = 1
  LockKeys = {}
  ConsumeNet = FALSE
  Ideal = TRUE
  Ghost = TRUE
  Record = FALSE
  Quiesce = FALSE
  RunDepth = 0
  QRounds = 2
SPECIFICATION Spec
VIEW view
INVARIANTS TypeOK TombstonesInvisible InvalidationSafe NoInventedContent SentIsWritten WatcherNeverStale PrefixWatcherNeverStale VersionCountsChanges
PROPERTIES TombstonesForwarded NoResurrection GCOnlyExpired NoExpiredTombstoneStored OnlyChangesForwarded DeletedStaysDeleted RemovedOnlyWhenObsolete DeletedNotRevived
CHECK_DEADLOCK FALSE
