\* C20 quick tier: all strings of length <= 4 over a 9-byte alphabet, every single byte,
\* run-length families at the 149/150/151 boundary, part lists, metadata strings.
CONSTANTS
  Alphabet = {97, 48, 46, 124, 58, 47, 61, 0, 195}
  MaxShort = 4
  Alphabet2 = {}
  MaxShort2 = 0
  RunBytes = {97}
  RunCounts = {1, 149, 150, 151}
  SepBytes = {46, 124, 58, 47}
  MaxSegs = 3
  Pool <- PoolQuick
  MaxParts = 5
  Pool2 <- PoolNone
  MaxParts2 = 0
  MetaAlphabet = {58, 61, 97, 48}
  MaxMeta = 6
  MetaRuns = {59, 60, 61, 62, 63}
INIT Init
NEXT Next
INVARIANTS TypeOK ValidIsDocumentedRule NoSeparatorInAccepted ResolversAgree MultiIsNormalised
           MetadataIgnoredConsistently SplitJoin MetaGrammar MetaOps NoOrgIsRefused Emit
CHECK_DEADLOCK FALSE
