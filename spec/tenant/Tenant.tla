------------------------------- MODULE Tenant -------------------------------
(***************************************************************************)
(* C20 - tenant identifiers: validation, normalisation, resolution.        *)
(*                                                                         *)
(* Strings are byte strings: sequences over 0..255.  The organisation id   *)
(* of a request ("X-Scope-OrgID") has the shape                            *)
(*                                                                         *)
(*     org  ::= part ( '|' part )*                                         *)
(*     part ::= tenant-id [ metadata ]                                     *)
(*     metadata ::= ( ':' key '=' value )+      keys strictly increasing   *)
(*                                                                         *)
(* The module defines, as operators over byte strings, what every exported *)
(* entry point of dskit's tenant package answers (value or error class,    *)
(* with the order in which error classes are reported), states the         *)
(* property's clauses as theorems over one organisation id, and carries a  *)
(* small state machine whose only purpose is to enumerate a universe of    *)
(* organisation ids (one TLC state per id) so that TLC decides the         *)
(* theorems on every id of the universe and emits the expected outcome of  *)
(* every operator for replay against the real code.                        *)
(***************************************************************************)
EXTENDS Integers, Sequences, FiniteSets, TLC, Json

-----------------------------------------------------------------------------
(* Bytes *)
Byte      == 0..255
NUL       == 0
SPACE     == 32
DOT       == 46
SLASH     == 47
COLON     == 58
EQ        == 61
BACKSLASH == 92
PIPE      == 124

Lower == 97..122
Upper == 65..90
Digit == 48..57

(* The documented safe characters of a tenant id: letters, digits and      *)
(*   ! - _ . * ' ( )                                                       *)
Safe == Lower \cup Upper \cup Digit \cup {33, 45, 95, 46, 42, 39, 40, 41}

(* Characters of metadata keys; metadata as a whole additionally uses the  *)
(* two separators.                                                         *)
MetaKeyChar == Lower \cup Upper \cup Digit \cup {45, 95}
MetaChar    == MetaKeyChar \cup {COLON, EQ}

MaxTenantIDLength == 150
MaxMetadataLength == 64

(* Bytes an accepted tenant id must never carry: the separators of the     *)
(* three grammars it is embedded in (tenant list, metadata, file paths),   *)
(* control bytes, space and everything outside ASCII.                      *)
Forbidden == {PIPE, COLON, EQ, SLASH, BACKSLASH, SPACE, 127} \cup (0..31) \cup (128..255)

ASSUME SafeIsDisjointFromForbidden == Safe \cap Forbidden = {}
ASSUME MetaKeyCharsAreSafe == MetaKeyChar \subseteq Safe

-----------------------------------------------------------------------------
(* Generic string operators *)
Min(S) == CHOOSE x \in S : \A y \in S : x <= y

\* first position whose byte is not in C; 0 if there is none
FirstNotIn(s, C) == IF \A i \in DOMAIN s : s[i] \in C THEN 0
                    ELSE CHOOSE i \in DOMAIN s : s[i] \notin C /\ \A j \in 1..(i-1) : s[j] \in C

\* first position of byte b; 0 if there is none
IndexOf(s, b) == IF \A i \in DOMAIN s : s[i] # b THEN 0
                 ELSE CHOOSE i \in DOMAIN s : s[i] = b /\ \A j \in 1..(i-1) : s[j] # b

Before(s, b) == LET i == IndexOf(s, b) IN IF i = 0 THEN s    ELSE SubSeq(s, 1, i-1)
After(s, b)  == LET i == IndexOf(s, b) IN IF i = 0 THEN <<>> ELSE SubSeq(s, i+1, Len(s))
From(s, b)   == LET i == IndexOf(s, b) IN IF i = 0 THEN <<>> ELSE SubSeq(s, i, Len(s))

RECURSIVE Split(_, _)
Split(s, b) == IF IndexOf(s, b) = 0 THEN <<s>>
               ELSE <<Before(s, b)>> \o Split(After(s, b), b)

RECURSIVE Join(_, _)
Join(ps, b) == IF Len(ps) = 0 THEN <<>>
               ELSE IF Len(ps) = 1 THEN ps[1]
               ELSE ps[1] \o <<b>> \o Join(Tail(ps), b)

Reverse(q) == [i \in 1..Len(q) |-> q[Len(q) + 1 - i]]
Range(q)   == {q[i] : i \in DOMAIN q}

\* byte-wise lexicographic order (Go's string comparison)
LexLess(a, b) ==
    LET n == IF Len(a) < Len(b) THEN Len(a) ELSE Len(b)
        D == {i \in 1..n : a[i] # b[i]}
    IN  IF D = {} THEN Len(a) < Len(b) ELSE a[Min(D)] < b[Min(D)]

StrictlySorted(q) == \A i \in 1..(Len(q)-1) : LexLess(q[i], q[i+1])

\* the elements of a set of strings in increasing order
RECURSIVE SortedSeq(_)
SortedSeq(S) == IF S = {} THEN <<>>
                ELSE LET m == CHOOSE x \in S : \A y \in S : x = y \/ LexLess(x, y)
                     IN  <<m>> \o SortedSeq(S \ {m})

-----------------------------------------------------------------------------
(* Results: a value or an error class.  `id`/`pos` name the offending      *)
(* string and (1-based) position for the "unsupported character" classes.  *)
Ok(v)           == [ok |-> TRUE,  err |-> "ok", pos |-> 0, id |-> <<>>, val |-> v]
Err(c)          == [ok |-> FALSE, err |-> c,    pos |-> 0, id |-> <<>>, val |-> <<>>]
ErrAt(c, s, p)  == [ok |-> FALSE, err |-> c,    pos |-> p, id |-> s,    val |-> <<>>]

ValidationErrs == {"unsupported_char", "too_long", "unsafe"}
MetaErrs       == {"meta_unsupported_char", "meta_too_long", "meta_no_leading_colon",
                   "meta_no_kv_separator", "meta_unsorted_keys"}

-----------------------------------------------------------------------------
(* ValidTenantID.  The order of the three checks is part of the contract:  *)
(* an unsupported character is reported before an excessive length, and    *)
(* the first unsupported character is the one reported.                    *)
Valid(s) ==
    LET p == FirstNotIn(s, Safe) IN
    IF p # 0 THEN ErrAt("unsupported_char", s, p)
    ELSE IF Len(s) > MaxTenantIDLength THEN Err("too_long")
    ELSE IF s = <<DOT>> \/ s = <<DOT, DOT>> THEN Err("unsafe")
    ELSE Ok(s)

\* the property's wording of the same rule, independent of error order
IsValidTenantID(s) == /\ \A i \in DOMAIN s : s[i] \in Safe
                      /\ Len(s) <= MaxTenantIDLength
                      /\ s \notin {<<DOT>>, <<DOT, DOT>>}

(* TrimMetadata and its complement *)
TrimMeta(p) == Before(p, COLON)
MetaOf(p)   == From(p, COLON)

Parts(o)    == Split(o, PIPE)
Tenants(o)  == LET ps == Parts(o) IN [k \in DOMAIN ps |-> TrimMeta(ps[k])]

(* NormalizeTenantIDs: sorted and duplicate-free *)
Normalize(ids) == SortedSeq(Range(ids))

(* TenantID (single-tenant resolution): only the first part is validated;  *)
(* every further part must denote the same tenant.                         *)
Single(o) ==
    LET ts == Tenants(o)
        v  == Valid(ts[1])
    IN  IF ~v.ok THEN v
        ELSE IF \E k \in 2..Len(ts) : ts[k] # ts[1] THEN Err("too_many")
        ELSE Ok(ts[1])

(* TenantIDs (multi-tenant resolution): every part is validated in order,  *)
(* the first invalid one determines the error.                             *)
Multi(o) ==
    LET ts  == Tenants(o)
        bad == {k \in DOMAIN ts : ~Valid(ts[k]).ok}
    IN  IF bad # {} THEN Valid(ts[Min(bad)])
        ELSE Ok(Normalize(ts))

-----------------------------------------------------------------------------
(* Metadata grammar *)
HasEq(kv) == IndexOf(kv, EQ) # 0
KeyOf(kv) == Before(kv, EQ)
ValOf(kv) == After(kv, EQ)
\* the "key=value" items of a metadata string that starts with ':'
MetaItems(m) == Tail(Split(m, COLON))

(* ParseMetadata, with the order of its checks *)
ParseMeta(m) ==
    LET p == FirstNotIn(m, MetaChar) IN
    IF p # 0 THEN ErrAt("meta_unsupported_char", m, p)
    ELSE IF Len(m) > MaxMetadataLength THEN Err("meta_too_long")
    ELSE IF m = <<>> THEN Ok(<<>>)
    ELSE IF m[1] # COLON THEN Err("meta_no_leading_colon")
    ELSE LET it  == MetaItems(m)
             Bad(k) == \/ ~HasEq(it[k])
                       \/ (k > 1 /\ HasEq(it[k-1]) /\ ~LexLess(KeyOf(it[k-1]), KeyOf(it[k])))
             B   == {k \in DOMAIN it : Bad(k)}
         IN  IF B = {} THEN Ok(m)
             ELSE IF ~HasEq(it[Min(B)]) THEN Err("meta_no_kv_separator")
             ELSE Err("meta_unsorted_keys")

(* ValidMetadata: the first two checks alone *)
ValidMeta(m) ==
    LET p == FirstNotIn(m, MetaChar) IN
    IF p # 0 THEN ErrAt("meta_unsupported_char", m, p)
    ELSE IF Len(m) > MaxMetadataLength THEN Err("meta_too_long")
    ELSE Ok(m)

\* the grammar, stated independently of the order of checks
WellFormedMeta(m) ==
    /\ Len(m) <= MaxMetadataLength
    /\ m # <<>> =>
         /\ m[1] = COLON
         /\ LET it == MetaItems(m) IN
              /\ \A k \in DOMAIN it :
                     /\ HasEq(it[k])
                     /\ \A i \in DOMAIN KeyOf(it[k]) : KeyOf(it[k])[i] \in MetaKeyChar
                     /\ \A i \in DOMAIN ValOf(it[k]) : ValOf(it[k])[i] \in MetaKeyChar \cup {EQ}
              /\ \A k \in 1..(Len(it)-1) : LexLess(KeyOf(it[k]), KeyOf(it[k+1]))

(* Operations on well-formed metadata *)
Pairs(m) == IF m = <<>> THEN <<>>
            ELSE LET it == MetaItems(m) IN [k \in DOMAIN it |-> <<KeyOf(it[k]), ValOf(it[k])>>]

RECURSIVE Encode(_)
Encode(ps) == IF ps = <<>> THEN <<>>
              ELSE <<COLON>> \o ps[1][1] \o <<EQ>> \o ps[1][2] \o Encode(Tail(ps))

Divide(m) == LET P == Pairs(m) IN [k \in DOMAIN P |-> Encode(<<P[k]>>)]

MetaGet(m, key) ==
    LET P == Pairs(m)
        H == {k \in DOMAIN P : P[k][1] = key}
    IN  IF H = {} THEN [found |-> FALSE, val |-> <<>>]
        ELSE [found |-> TRUE, val |-> P[Min(H)][2]]

MetaSet(m, key, val) ==
    LET P == Pairs(m)
        lower  == SelectSeq(P, LAMBDA p : LexLess(p[1], key))
        higher == SelectSeq(P, LAMBDA p : LexLess(key, p[1]))
    IN  Encode(lower \o <<<<key, val>>>> \o higher)

(* ParseWithMetadata / ExtractWithMetadata: the first part's tenant is     *)
(* validated, every further part must be byte-equal to the first (tenant   *)
(* and metadata), only then the metadata is parsed.                        *)
WithMeta(o) ==
    LET ps == Parts(o)
        t  == TrimMeta(ps[1])
        ms == MetaOf(ps[1])
        v  == Valid(t)
    IN  IF ~v.ok THEN v
        ELSE IF \E k \in 2..Len(ps) : ps[k] # ps[1] THEN Err("too_many")
        ELSE LET pm == ParseMeta(ms) IN
             IF ~pm.ok THEN pm
             ELSE Ok([tenant |-> t, meta |-> ms])

-----------------------------------------------------------------------------
(* An organisation id as found in a context: absent, or a byte string.     *)
NoOrg   == [has |-> FALSE, b |-> <<>>]
Org(s)  == [has |-> TRUE,  b |-> s]

CtxSingle(c)   == IF ~c.has THEN Err("no_org_id") ELSE Single(c.b)
CtxMulti(c)    == IF ~c.has THEN Err("no_org_id") ELSE Multi(c.b)
CtxWithMeta(c) == IF ~c.has THEN Err("no_org_id") ELSE WithMeta(c.b)
\* ExtractTenantIDFromHTTPRequest: an absent or empty header is "no org id"
HTTPSingle(c)  == IF ~c.has \/ c.b = <<>> THEN Err("no_org_id") ELSE Single(c.b)

-----------------------------------------------------------------------------
(* The property's clauses, as theorems about one organisation id string o. *)

Accepted(o) ==
    LET s == Single(o)
        m == Multi(o)
        w == WithMeta(o)
    IN  (IF s.ok        THEN {s.val}        ELSE {}) \cup
        (IF m.ok        THEN Range(m.val)   ELSE {}) \cup
        (IF w.ok        THEN {w.val.tenant} ELSE {}) \cup
        (IF Valid(o).ok THEN {o}            ELSE {})

ThmValidIsDocumentedRule(o) == Valid(o).ok <=> IsValidTenantID(o)

ThmNoSeparatorInAccepted(o) ==
    \A t \in Accepted(o) :
        /\ IsValidTenantID(t)
        /\ \A i \in DOMAIN t : t[i] \notin Forbidden

ThmResolversAgree(o) ==
    LET s  == Single(o)
        m  == Multi(o)
        ts == Tenants(o)
    IN  /\ s.ok <=> (m.ok /\ Len(m.val) = 1)
        /\ s.ok => /\ m.val = <<s.val>>
                   /\ \A k \in DOMAIN ts : ts[k] = s.val
        \* a validation error of the single-tenant resolver is the multi-tenant resolver's error
        /\ (~s.ok /\ s.err \in ValidationErrs) => m = s
        \* "too many": the multi-tenant resolver sees at least two tenants or an invalid later part
        /\ (~s.ok /\ s.err = "too_many") =>
               \/ m.ok /\ Len(m.val) >= 2
               \/ ~m.ok /\ m.err \in ValidationErrs
        /\ ~s.ok => s.err \in ValidationErrs \cup {"too_many"}
        /\ ~m.ok => m.err \in ValidationErrs

ThmMultiIsNormalised(o) ==
    LET m  == Multi(o)
        ts == Tenants(o)
    IN
    /\ m.ok <=> \A k \in DOMAIN ts : IsValidTenantID(ts[k])
    /\ m.ok =>
        /\ StrictlySorted(m.val)
        /\ Range(m.val) = Range(ts)                  \* exactly the supplied tenants
        /\ Normalize(m.val) = m.val                   \* idempotent
        \* the answer depends only on the set of supplied tenants
        /\ Multi(Join(Reverse(Parts(o)), PIPE)) = m
        /\ Multi(o \o <<PIPE>> \o o) = m
        /\ Multi(Join(m.val, PIPE)) = m

ThmMetadataIgnoredConsistently(o) ==
    LET stripped == Join(Tenants(o), PIPE)
        s  == Single(o)
        w  == WithMeta(o)
        ps == Parts(o)
    IN  /\ Single(stripped) = s
        /\ Multi(stripped)  = Multi(o)
        /\ w.ok => /\ s = Ok(w.val.tenant)
                   /\ Multi(o) = Ok(<<w.val.tenant>>)
                   /\ WellFormedMeta(w.val.meta)
                   /\ \A k \in DOMAIN ps : ps[k] = w.val.tenant \o w.val.meta
        /\ s.ok => \/ w.ok /\ w.val.tenant = s.val
                   \/ ~w.ok /\ w.err \in {"too_many"} \cup MetaErrs
        /\ (~s.ok /\ s.err \in ValidationErrs) => w = s
        /\ (~s.ok /\ s.err = "too_many") => (~w.ok /\ w.err = "too_many")

ThmSplitJoin(o) ==
    LET ps == Parts(o) IN
    /\ Join(ps, PIPE) = o
    /\ TrimMeta(o) \o MetaOf(o) = o
    /\ \A k \in DOMAIN ps : IndexOf(ps[k], PIPE) = 0
    /\ IndexOf(TrimMeta(o), COLON) = 0

ThmMetaGrammar(m) ==
    /\ ParseMeta(m).ok <=> WellFormedMeta(m)
    /\ ParseMeta(m).ok => ValidMeta(m).ok /\ Encode(Pairs(m)) = m

(* Get / Set (With) on well-formed metadata, probed with a few keys and values: Set keeps   *)
(* the grammar (as long as the result fits), makes the key readable and leaves every other  *)
(* key alone.                                                                               *)
ProbeKeySeq == << <<>>, <<48>>, <<97>>, <<98>> >>            \* "", "0", "a", "b"
ProbeValSeq == << <<>>, <<48>>, <<EQ, 97>> >>                \* "", "0", "=a"
ProbeKeys == Range(ProbeKeySeq)
ProbeVals == Range(ProbeValSeq)

ThmMetaOps(m) ==
    ParseMeta(m).ok =>
        \A k \in ProbeKeys, v \in ProbeVals :
             LET m2 == MetaSet(m, k, v) IN
             /\ Len(m2) <= MaxMetadataLength => ParseMeta(m2).ok
             /\ MetaGet(m2, k) = [found |-> TRUE, val |-> v]
             /\ \A k2 \in ProbeKeys \ {k} : MetaGet(m2, k2) = MetaGet(m, k2)

-----------------------------------------------------------------------------
(* Universe enumeration.  `seed` states fan out (one Next step) into case  *)
(* states so that TLC's workers share the enumeration.                     *)
CONSTANTS Alphabet,      \* representative bytes for the exhaustive short strings
          MaxShort,      \* all strings over Alphabet up to this length
          Alphabet2,     \* a wider alphabet (adds \ space % + DEL), for shorter strings
          MaxShort2,
          RunBytes,      \* bytes that occur in long runs (valid id characters)
          RunCounts,     \* run lengths
          SepBytes,      \* bytes that occur once between runs (separators, invalid bytes)
          MaxSegs,       \* up to this many (byte, count) segments
          Pool,          \* sequence of parts for the part-list family
          MaxParts,      \* lists of 1..MaxParts parts
          Pool2,         \* a second (larger) pool, for shorter lists
          MaxParts2,
          MetaAlphabet,  \* bytes of the metadata family
          MaxMeta,       \* metadata strings up to this length (appended to tenant "a")
          MetaRuns       \* value run lengths around the 64-byte metadata limit

VARIABLES phase,  \* "seed" | "case"
          seed,   \* the seed descriptor
          fam,    \* family the case belongs to
          org     \* the organisation id of the case (NoOrg or Org(bytes))

vars == <<phase, seed, fam, org>>

Rep(b, n) == [i \in 1..n |-> b]

RECURSIVE Expand(_)
Expand(segs) == IF segs = <<>> THEN <<>>
                ELSE Rep(segs[1][1], segs[1][2]) \o Expand(Tail(segs))

Seg == (RunBytes \X RunCounts) \cup (SepBytes \X {1})

Seeds ==
    {[f |-> "edge",    x |-> <<>>]} \cup
    {[f |-> "short",   x |-> <<b>>]   : b \in Alphabet} \cup
    {[f |-> "shortx",  x |-> <<b>>]   : b \in (IF MaxShort2 > 0 THEN Alphabet2 ELSE {})} \cup
    {[f |-> "byte",    x |-> <<k>>]   : k \in 0..15} \cup
    {[f |-> "runs",    x |-> s]       : s \in Seg} \cup
    {[f |-> "parts",   x |-> <<k>>]   : k \in DOMAIN Pool} \cup
    {[f |-> "parts2",  x |-> <<k>>]   : k \in DOMAIN Pool2} \cup
    {[f |-> "meta",    x |-> <<b>>]   : b \in MetaAlphabet} \cup
    {[f |-> "metalen", x |-> <<n>>]   : n \in MetaRuns}

Init == /\ phase = "seed"
        /\ seed \in Seeds
        /\ fam = "seed"
        /\ org = NoOrg

Case(f, o) == /\ phase' = "case"
              /\ fam' = f
              /\ org' = o
              /\ UNCHANGED seed

Seeded(f) == phase = "seed" /\ seed.f = f

GenEdge == /\ Seeded("edge")
           /\ \E o \in {NoOrg, Org(<<>>)} : Case("edge", o)

GenShort == /\ Seeded("short")
            /\ \E n \in 0..(MaxShort-1) : \E t \in [1..n -> Alphabet] :
                   Case("short", Org(seed.x \o t))

GenShortX == /\ Seeded("shortx")
             /\ \E n \in 0..(MaxShort2-1) : \E t \in [1..n -> Alphabet2] :
                    Case("shortx", Org(seed.x \o t))

\* every single byte, alone and next to a valid letter
GenByte == /\ Seeded("byte")
           /\ \E b \in (16*seed.x[1])..(16*seed.x[1]+15) :
                \E s \in {<<b>>, <<97, b>>, <<b, 97>>, <<b, PIPE, b>>} : Case("byte", Org(s))

GenRuns == /\ Seeded("runs")
           /\ \E n \in 0..(MaxSegs-1) : \E t \in [1..n -> Seg] :
                   Case("runs", Org(Expand(<<seed.x>> \o t)))

PartLists(f, P, max) ==
    /\ Seeded(f)
    /\ \E n \in 0..(max-1) : \E g \in [1..n -> DOMAIN P] :
           Case(f, Org(Join(<<P[seed.x[1]]>> \o [i \in 1..n |-> P[g[i]]], PIPE)))

GenParts  == PartLists("parts", Pool, MaxParts)
GenParts2 == PartLists("parts2", Pool2, MaxParts2)

GenMeta == /\ Seeded("meta")
           /\ \E n \in 0..(MaxMeta-1) : \E t \in [1..n -> MetaAlphabet] :
                   Case("meta", Org(<<97>> \o seed.x \o t))

\* metadata around the 64-byte limit: ":a=" followed by a run of n digits
GenMetaLen ==
    /\ Seeded("metalen")
    /\ \E t \in {<<97>>, Rep(97, 150), Rep(97, 151)} :
         \E tail \in {<<>>, <<COLON, 98, EQ>>, <<SLASH>>, <<COLON>>, <<COLON, 48, EQ>>} :
           \E dup \in BOOLEAN :
             LET base == t \o <<COLON, 97, EQ>> \o Rep(48, seed.x[1]) \o tail
             IN  Case("metalen", Org(IF dup THEN base \o <<PIPE>> \o base ELSE base))

Next == GenEdge \/ GenShort \/ GenShortX \/ GenByte \/ GenRuns \/ GenParts \/ GenParts2 \/ GenMeta \/ GenMetaLen

Spec == Init /\ [][Next]_vars

(* Part pools for the configs: "a", "0", tenant "a" with two different metadata, an invalid  *)
(* part; the thorough pool adds the empty part, "..", another tenant with metadata and a     *)
(* valid tenant with malformed metadata.                                                     *)
PoolQuick    == << <<97>>, <<48>>, <<97, COLON, 97, EQ, 48>>, <<97, COLON, 48, EQ, 48>>, <<SLASH>> >>
PoolThorough == PoolQuick \o << <<>>, <<DOT, DOT>>, <<48, COLON, 97, EQ, 48>>, <<97, COLON, SLASH>> >>
PoolNone     == <<>>

-----------------------------------------------------------------------------
(* Invariants: the theorems on every enumerated organisation id. *)
IsCase == phase = "case"

TypeOK == /\ phase \in {"seed", "case"}
          /\ org.has \in BOOLEAN
          /\ \A i \in DOMAIN org.b : org.b[i] \in Byte

ValidIsDocumentedRule        == IsCase => ThmValidIsDocumentedRule(org.b)
NoSeparatorInAccepted        == IsCase => ThmNoSeparatorInAccepted(org.b)
ResolversAgree               == IsCase => ThmResolversAgree(org.b)
MultiIsNormalised            == IsCase => ThmMultiIsNormalised(org.b)
MetadataIgnoredConsistently  == IsCase => ThmMetadataIgnoredConsistently(org.b)
SplitJoin                    == IsCase => ThmSplitJoin(org.b)
MetaGrammar                  == IsCase => /\ ThmMetaGrammar(org.b)
                                          /\ ThmMetaGrammar(MetaOf(Before(org.b, PIPE)))
\* checked on the first part's metadata when there is some (and once on the empty metadata)
MetaOps                      == IsCase => LET m == MetaOf(Before(org.b, PIPE)) IN
                                          (m # <<>> \/ fam = "edge") => ThmMetaOps(m)
\* a context without an organisation id is refused by every resolver, never defaulted
NoOrgIsRefused == (IsCase /\ ~org.has) =>
                     /\ CtxSingle(org) = Err("no_org_id")
                     /\ CtxMulti(org) = Err("no_org_id")
                     /\ CtxWithMeta(org) = Err("no_org_id")
                     /\ HTTPSingle(org) = Err("no_org_id")

-----------------------------------------------------------------------------
(* Expected outcome of every entry point for one organisation id: what the *)
(* conformance driver compares the real code against.                      *)
MetaOpsOf(m) ==
    [pairs  |-> Pairs(m),
     divide |-> Divide(m),
     gets   |-> [k \in DOMAIN ProbeKeySeq |->
                   LET key == ProbeKeySeq[k]
                       g   == MetaGet(m, key)
                   IN  [key |-> key, found |-> g.found, val |-> g.val]],
     sets   |-> LET ks == ProbeKeySeq
                    vs == ProbeValSeq
                IN  [j \in 1..(Len(ks) * Len(vs)) |->
                       LET key == ks[((j-1) \div Len(vs)) + 1]
                           val == vs[((j-1) % Len(vs)) + 1]
                       IN  [key |-> key, val |-> val, out |-> MetaSet(m, key, val)]]]

NoMetaOps == [pairs |-> <<>>, divide |-> <<>>, gets |-> <<>>, sets |-> <<>>]

\* what is observable of a result: value or error class, and the byte an
\* "unsupported character" error names (-1 otherwise)
Proj(r) == [ok |-> r.ok, err |-> r.err, bad |-> IF r.pos # 0 THEN r.id[r.pos] ELSE -1, val |-> r.val]

Outcome(c) ==
    [has       |-> c.has,
     in        |-> c.b,
     valid     |-> Proj(Valid(c.b)).err,
     validbad  |-> Proj(Valid(c.b)).bad,
     trim      |-> TrimMeta(c.b),
     parts     |-> Parts(c.b),
     normalize |-> Normalize(Parts(c.b)),
     single    |-> Proj(CtxSingle(c)),
     multi     |-> Proj(CtxMulti(c)),
     withmeta  |-> Proj(CtxWithMeta(c)),
     http      |-> Proj(HTTPSingle(c)),
     validmeta |-> Proj(ValidMeta(c.b)).err,
     parsemeta |-> Proj(ParseMeta(c.b)).err,
     metabad   |-> Proj(ParseMeta(c.b)).bad,
     \* Metadata methods on the parsed metadata (where there is some, and on the empty one for ids of length <= 1)
     wmops     |-> LET w == CtxWithMeta(c) IN
                   IF w.ok /\ (w.val.meta # <<>> \/ Len(c.b) <= 1) THEN MetaOpsOf(w.val.meta) ELSE NoMetaOps]

Emit == IsCase => PrintT(ToJson([fam |-> fam] @@ Outcome(org)))
=============================================================================
