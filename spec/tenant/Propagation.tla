----------------------------- MODULE Propagation -----------------------------
(***************************************************************************)
(* C20 - the organisation id (and, over HTTP, the user id) travels from a  *)
(* context into HTTP headers / gRPC metadata and back into a context, hop  *)
(* after hop, and arrives unchanged; a request without one is refused,     *)
(* never given a default.                                                  *)
(*                                                                         *)
(* Ids are opaque (the transport never looks inside them) except for the   *)
(* empty string, which an HTTP header cannot distinguish from "absent".    *)
(* The harness instantiates the non-empty ids with several families of     *)
(* byte strings (plain, multi-tenant with metadata, NUL / high bytes,      *)
(* long).                                                                  *)
(*                                                                         *)
(* One state = where the id currently is:                                  *)
(*   "ctx"   in a context.Context                  (value ctx, None if no  *)
(*           id was ever injected)                                         *)
(*   "http"  in the header values of a request in flight (sequence hdr)    *)
(*   "grpc"  in the metadata values of a call in flight   (sequence md)    *)
(*   "rejected"  a hop refused the request (err says why)                  *)
(***************************************************************************)
EXTENDS Integers, Sequences, TLC, Json

CONSTANTS Ids,       \* abstract ids: small naturals, 0 is the empty string
          Channels,  \* subset of {"org", "user"}: which id is propagated
          MaxHops,   \* chains of at most this many hops
          InProc,    \* BOOLEAN: hops over in-process carriers (http.Header / metadata.MD objects)
          WireHops,  \* BOOLEAN: hops over the real stacks (net/http, gRPC over HTTP/2)
          HTTPRefused, \* ids net/http refuses to put on the wire (NUL, CR, LF, DEL ... in the value)
          GRPCRefused, \* ids gRPC refuses to put on the wire (anything outside printable ASCII)
          HTTPTrim     \* [Ids -> Ids]: what HTTP/1.1 delivers for an id - optional white space
                       \* around a header value is not part of the value (RFC 7230), so an id with
                       \* leading / trailing blanks arrives trimmed (a named deviation, see below)

None  == -1          \* no id
Empty == 0           \* the empty string

ASSUME Empty \in Ids /\ None \notin Ids /\ Channels \subseteq {"org", "user"}
ASSUME /\ InProc \in BOOLEAN /\ WireHops \in BOOLEAN
       /\ HTTPRefused \subseteq Ids /\ GRPCRefused \subseteq Ids
       /\ HTTPTrim \in [Ids -> Ids]
       /\ \A i \in Ids : HTTPTrim[HTTPTrim[i]] = HTTPTrim[i]      \* idempotent
       /\ HTTPTrim[Empty] = Empty

\* instances for the configs
NoTrim  == [i \in Ids |-> i]
\* id 5 is id 1 with a blank appended ("tenant-a " vs "tenant-a")
OWSTrim == [i \in Ids |-> IF i = 5 THEN 1 ELSE i]

VARIABLES chan,    \* the channel of this behaviour
          at,      \* "ctx" | "http" | "grpc" | "rejected"
          ctx,     \* id in the context (None: there is none)
          hdr,     \* values of the id header of the request in flight
          md,      \* values of the id key of the gRPC metadata in flight
          err,     \* "" or the refusal
          origin,  \* ghost: the id the chain started with (None: it started without one)
          hops,    \* number of hops taken
          hist     \* ghost: the hops taken so far, with the state after each (for replay)

vars == <<chan, at, ctx, hdr, md, err, origin, hops, hist>>
view == <<chan, at, ctx, hdr, md, err, origin, hops>>

\* up to two values under one key
Vals == {<<>>} \cup {<<i>> : i \in Ids} \cup {<<i, j>> : i \in Ids, j \in Ids}

\* net/http Header.Get: the first value, "" if there is none
First(vs) == IF vs = <<>> THEN Empty ELSE vs[1]

\* the id the current carrier holds for whoever reads it according to the rules (an HTTP header
\* cannot tell the empty id from no id: both read as Empty and are refused by the next hop)
Carried == CASE at = "ctx"  -> ctx
             [] at = "http" -> First(hdr)
             [] at = "grpc" -> IF Len(md) = 1 THEN md[1] ELSE None
             [] OTHER       -> None

Snap(a, pre, present, stale) ==
    [a |-> a, pre |-> pre, present |-> present, stale |-> stale,
     post |-> [at |-> at', ctx |-> ctx', hdr |-> hdr', md |-> md', err |-> err']]

-----------------------------------------------------------------------------
(* A chain starts in a context (with or without an id), or with a foreign  *)
(* HTTP request / gRPC call carrying arbitrary values.                     *)
Init ==
    /\ chan \in Channels
    /\ hops = 0
    /\ err = ""
    /\ \/ /\ at = "ctx" /\ ctx \in Ids \cup {None} /\ hdr = <<>> /\ md = <<>>
          /\ origin = ctx
       \/ /\ at = "http" /\ ctx = None /\ hdr \in Vals /\ md = <<>>
          /\ origin = IF First(hdr) = Empty THEN None ELSE First(hdr)
       \/ /\ chan = "org"
          /\ at = "grpc" /\ ctx = None /\ hdr = <<>> /\ md \in Vals
          /\ origin = IF Len(md) = 1 THEN md[1] ELSE None
    /\ hist = <<[a |-> "Start", pre |-> <<>>, present |-> FALSE, stale |-> None,
                 post |-> [at |-> at, ctx |-> ctx, hdr |-> hdr, md |-> md, err |-> err]]>>

Refuse(e) == /\ at' = "rejected"
             /\ err' = e
             /\ ctx' = None /\ hdr' = <<>> /\ md' = <<>>

Step(a, pre, present, stale) ==
    /\ hops < MaxHops
    /\ hops' = hops + 1
    /\ hist' = Append(hist, Snap(a, pre, present, stale))
    /\ UNCHANGED <<chan, origin>>

(* Inject*IDIntoHTTPRequest: the outgoing request may already carry values *)
(* `pre` under the header.  Refused without an id in the context and when  *)
(* a different non-empty id is already present; otherwise the header is    *)
(* set to exactly the id (all previous values replaced).                   *)
CtxToHTTP(pre) ==
    /\ InProc
    /\ at = "ctx"
    /\ IF ctx = None THEN Refuse("no_id")
       ELSE IF First(pre) # Empty /\ First(pre) # ctx THEN Refuse("different_id")
       ELSE /\ at' = "http" /\ hdr' = <<ctx>> /\ ctx' = None
            /\ UNCHANGED <<md, err>>
    /\ Step("CtxToHTTP", pre, pre # <<>>, None)

(* Extract*IDFromHTTPRequest / the AuthenticateUser middleware: the first  *)
(* header value; absent or empty is refused (401), nothing is defaulted.   *)
(* `stale` is an id the receiving side's base context may already carry:   *)
(* it must not survive.                                                    *)
HTTPToCtx(stale) ==
    /\ InProc
    /\ at = "http"
    /\ IF First(hdr) = Empty THEN Refuse("no_id")
       ELSE /\ at' = "ctx" /\ ctx' = First(hdr) /\ hdr' = <<>>
            /\ UNCHANGED <<md, err>>
    /\ Step("HTTPToCtx", <<>>, FALSE, stale)

(* InjectIntoGRPCRequest / the client interceptors: the outgoing metadata  *)
(* may already have the key (`present`) with values `pre`.                 *)
CtxToGRPC(present, pre) ==
    /\ InProc
    /\ chan = "org"
    /\ at = "ctx"
    /\ IF ctx = None THEN Refuse("no_id")
       ELSE IF present /\ Len(pre) # 1 THEN Refuse("too_many_ids")
       ELSE IF present /\ pre[1] # ctx THEN Refuse("different_id")
       ELSE /\ at' = "grpc" /\ md' = <<ctx>> /\ ctx' = None
            /\ UNCHANGED <<hdr, err>>
    /\ Step("CtxToGRPC", pre, present, None)

(* ExtractFromGRPCRequest / the server interceptors: exactly one value, or *)
(* the call is refused.                                                    *)
GRPCToCtx(stale) ==
    /\ InProc
    /\ chan = "org"
    /\ at = "grpc"
    /\ IF Len(md) # 1 THEN Refuse("no_id")
       ELSE /\ at' = "ctx" /\ ctx' = md[1] /\ md' = <<>>
            /\ UNCHANGED <<hdr, err>>
    /\ Step("GRPCToCtx", <<>>, FALSE, stale)

-----------------------------------------------------------------------------
(* Wire-level hops: both halves of a hop run through the real stacks, so a   *)
(* hop leads from a context to a context.  The transport may refuse to      *)
(* carry an id at all ("transport": a named outcome, not a changed id), and  *)
(* HTTP delivers HTTPTrim[id].                                              *)

(* InjectOrgIDIntoHTTPRequest -> net/http client -> server -> AuthenticateUser *)
HTTPWire(pre) ==
    /\ WireHops /\ chan = "org"
    /\ at = "ctx"
    /\ IF ctx = None THEN Refuse("no_id")
       ELSE IF First(pre) # Empty /\ First(pre) # ctx THEN Refuse("different_id")
       ELSE IF ctx \in HTTPRefused THEN Refuse("transport")
       ELSE IF HTTPTrim[ctx] = Empty THEN Refuse("no_id")
       ELSE /\ at' = "ctx" /\ ctx' = HTTPTrim[ctx]
            /\ UNCHANGED <<hdr, md, err>>
    /\ Step("HTTPWire", pre, pre # <<>>, None)

(* a foreign client's request (header values hdr) reaching AuthenticateUser *)
HTTPWireIn ==
    /\ WireHops /\ chan = "org"
    /\ at = "http"
    /\ IF \E i \in DOMAIN hdr : hdr[i] \in HTTPRefused THEN Refuse("transport")
       ELSE IF HTTPTrim[First(hdr)] = Empty THEN Refuse("no_id")
       ELSE /\ at' = "ctx" /\ ctx' = HTTPTrim[First(hdr)] /\ hdr' = <<>>
            /\ UNCHANGED <<md, err>>
    /\ Step("HTTPWireIn", <<>>, FALSE, None)

(* client interceptor -> HTTP/2 -> server interceptor (unary and stream) *)
GRPCWire(present, pre) ==
    /\ WireHops /\ chan = "org"
    /\ at = "ctx"
    /\ IF ctx = None THEN Refuse("no_id")
       ELSE IF present /\ Len(pre) # 1 THEN Refuse("too_many_ids")
       ELSE IF present /\ pre[1] # ctx THEN Refuse("different_id")
       ELSE IF ctx \in GRPCRefused THEN Refuse("transport")
       ELSE /\ at' = "ctx" /\ UNCHANGED <<ctx, hdr, md, err>>
    /\ Step("GRPCWire", pre, present, None)

(* a foreign client's call (metadata values md) reaching the server interceptor *)
GRPCWireIn ==
    /\ WireHops /\ chan = "org"
    /\ at = "grpc"
    /\ IF \E i \in DOMAIN md : md[i] \in GRPCRefused THEN Refuse("transport")
       ELSE IF Len(md) # 1 THEN Refuse("no_id")
       ELSE /\ at' = "ctx" /\ ctx' = md[1] /\ md' = <<>>
            /\ UNCHANGED <<hdr, err>>
    /\ Step("GRPCWireIn", <<>>, FALSE, None)

WireNext == \/ \E pre \in Vals : HTTPWire(pre)
            \/ HTTPWireIn
            \/ \E pre \in Vals : GRPCWire(TRUE, pre)
            \/ GRPCWire(FALSE, <<>>)
            \/ GRPCWireIn

Next == \/ WireNext
        \/ \E pre \in Vals : CtxToHTTP(pre)
        \/ \E stale \in Ids \cup {None} : HTTPToCtx(stale)
        \/ \E pre \in Vals : CtxToGRPC(TRUE, pre)
        \/ CtxToGRPC(FALSE, <<>>)
        \/ \E stale \in Ids \cup {None} : GRPCToCtx(stale)

Spec == Init /\ [][Next]_vars

-----------------------------------------------------------------------------
TypeOK == /\ chan \in Channels
          /\ at \in {"ctx", "http", "grpc", "rejected"}
          /\ ctx \in Ids \cup {None}
          /\ hdr \in Vals /\ md \in Vals
          /\ err \in {"", "no_id", "different_id", "too_many_ids", "transport"}
          /\ origin \in Ids \cup {None}
          /\ hops \in 0..MaxHops

(* The property: whatever a hop delivers is the id the chain started with. *)
Unchanged == (at # "rejected" /\ hops > 0) => (Carried = origin /\ origin # None)

(* Wire level.  The PROPERTY is the strict Unchanged with HTTPTrim = NoTrim *)
(* (MC_prop_wire.cfg): the replay holds the real stacks against it.  The   *)
(* real net/http stack strips blanks around a header value (open finding   *)
(* F11); OWSTrim is the as-is model of that behaviour: under it only the   *)
(* weaker UnchangedUpToOWS holds (MC_prop_wire_asis.cfg) and the strict    *)
(* Unchanged is refuted (MC_prop_wire_strict.cfg, negative control:        *)
(* "tenant-a " placed in a context arrives as "tenant-a" after one HTTP    *)
(* hop).                                                                   *)
UnchangedUpToOWS == (at # "rejected" /\ hops > 0) =>
                        /\ origin # None
                        /\ Carried \in {origin, HTTPTrim[origin]}
\* an id is only ever altered by an HTTP wire hop, and only an id HTTPTrim moves
AlteredOnlyByHTTPTrim ==
    [][(at' # "rejected" /\ Carried' # Carried) =>
          /\ Carried \in Ids /\ Carried' = HTTPTrim[Carried]
          /\ hist'[Len(hist')].a \in {"HTTPWire", "HTTPWireIn"}]_vars
\* the transport never delivers an id it was documented to refuse
TransportRefusalIsNotDelivery ==
    [][(hist'[Len(hist')].a = "GRPCWire" /\ ctx \in GRPCRefused) => at' = "rejected"]_vars

(* A request without an id is refused at its first hop, never defaulted.   *)
NeverDefaulted == (origin = None /\ hops > 0) => (at = "rejected" /\ err \in {"no_id", "transport"})

(* What the code writes is a single value. *)
SingleValueWritten == hops > 0 => (at = "http" => Len(hdr) = 1) /\ (at = "grpc" => Len(md) = 1)

(* A refusal names its reason and is final. *)
RefusalHasReason == (at = "rejected") <=> (err # "")

(* Action property: a hop that does not refuse leaves the carried id alone *)
UnchangedStep == [][at' # "rejected" => Carried' = Carried]_vars
RefusalIsFinal == [][at # "rejected"]_vars

-----------------------------------------------------------------------------
(* Behaviour emitter (spec -> code): one JSON behaviour per transition of  *)
(* the state graph under VIEW view: the path to the source state plus that *)
(* transition.                                                             *)
EmitStep == PrintT(ToJson([chan |-> chan, origin |-> origin, hist |-> hist']))

(* Without the VIEW every state is one path; the maximal ones (chain refused or MaxHops      *)
(* reached) are printed: all behaviours up to MaxHops hops.                                   *)
EmitPath == (at = "rejected" \/ hops = MaxHops) =>
                PrintT(ToJson([chan |-> chan, origin |-> origin, hist |-> hist]))
=============================================================================
