\* t_n4hb: 4 single-token instances: {ACTIVE,LEAVING} x all three heartbeat classes x zones 0..2
\* (generated from UNIVERSES in checks/ringlookup_common.py: python3 checks/ringlookup_common.py --write-cfgs)
CONSTANTS
  NK = 5
  Gaps = {2}
  N = 4
  MaxTok = 1
  MaxIdle = 0
  Z = 2
  StateSet = {"ACTIVE", "LEAVING"}
  HbSet = {"fresh", "edge", "stale"}
  RFMax = 5
  Canon = 2
  WithRemove = FALSE
  Excl = {}
  EmitOn = TRUE
  EmitSets = FALSE
  XMax = 0
INIT Init
NEXT Next
VIEW View
INVARIANTS TypeOK SizeOK ZoneOK ClockwiseFirst SlackExact WalkDefsAgree QuorumIntersection ExpandedOK Emit
PROPERTIES MinimalDisruption
CHECK_DEADLOCK FALSE
