"""Shared driver code of C08 / C09 (family lifecycler).

spec/lifecycler/{Lifecycler,BasicLifecycler}.tla are model-checked exhaustively on bounded configurations
(MC_*.cfg); harness/c08 records what real ring.Lifecycler / ring.BasicLifecycler instances do under the
synctest bubble clock and spec/lifecycler/LifecyclerTrace.tla decides whether every recorded behaviour is a
behaviour of the specification (every store operation = one enabled action of its writer, every C08/C09
invariant / action property evaluated on every ring version ever written).
"""
import json
import os
import re

import verif

FAMILY = "lifecycler"
PROPS_C08 = ["OwnEntryOnly", "StateEdges", "RefusedUntouched", "HeartbeatMonotone", "HeartbeatFresh",
             "RegisteredOnce", "ActivationTokens", "ReadyImpliesActive"]
PROPS_C09 = ["KeepsIdentity", "ReRegistersFresh", "Recovers", "ReRegisters", "RecoversNoCollision", "FileNeverCorrupt"]

# actions whose coverage must not be zero in the exhaustive runs of a tier (vacuity guard)
ACTIONS = ["InitRingT", "AutoJoinT", "AutoJoinSkip", "ObserveT", "Activate", "Heartbeat", "DoChangeState",
           "DoReadOnly", "DoClaim", "StopLeaving", "Unregister", "FinishStop", "BRegisterT", "BVerifyT",
           "BHeartbeat", "BDoChangeState", "BDoReadOnly", "BLeave"]


def model_check(ctx, cfgs, timeout, liveness=False):
    """Exhaustive TLC runs; a specification-level violation is inconclusive (never a verdict on the code)."""
    if os.environ.get("VERIF_LC_SKIP_MC"):   # development only (mutation testing of the binding)
        ctx.inconclusive_note("model checking skipped (VERIF_LC_SKIP_MC)")
        return
    for cfg in cfgs:
        r = ctx.tlc(FAMILY, "MC_Lifecycler", cfg=cfg + ".cfg", timeout=timeout, deadlock=False,
                    workers=int(os.environ.get("VERIF_TLC_WORKERS", "0")) or None)
        ctx.require_tlc_ok(r, cfg)
        if r.distinct < 100:
            raise verif.Inconclusive("%s explored only %d states" % (cfg, r.distinct))
    ctx.exhaustive = True


def negative_control(ctx, cfg, prop, timeout=600):
    """A configuration of the specification with a known-bad constant: TLC must refute prop (guards against a
    property that cannot fail)."""
    if os.environ.get("VERIF_LC_SKIP_MC"):
        return
    r = ctx.tlc(FAMILY, "MC_Lifecycler", cfg=cfg + ".cfg", timeout=timeout, deadlock=False, count=False,
                workers=int(os.environ.get("VERIF_TLC_WORKERS", "0")) or None)
    if r.timed_out or r.violated != prop:
        raise verif.Inconclusive("negative control %s: expected TLC to refute %s, got %s" % (cfg, prop, r.violated or r.error or "no violation"))
    ctx.extra["negative_controls_refuted"] = ctx.extra.get("negative_controls_refuted", 0) + 1


def split_traces(path):
    """[(label, first_line_no (1-based), [events...])] of a concatenated trace file."""
    traces = []
    with open(path) as f:
        for n, line in enumerate(f, 1):
            line = line.strip()
            if not line:
                continue
            e = json.loads(line)
            if e.get("k") == "reset":
                traces.append([e.get("label", "?"), n, []])
            traces[-1][2].append(e)
    return traces


def _short_ring(r):
    out = []
    for x in r["e"]:
        if x["st"] == "ABSENT":
            out.append("-")
        else:
            out.append("%s%s@%d/r%d%s%s" % (x["st"][:3], x["toks"], x["ts"], x["reg"], "R" if x["ro"] else "",
                                          "!" + x["bad"] if "bad" in x else ""))
    return " ".join(out) + (" NIL" if r.get("nil") else "") + (" BAD:" + r["bad"] if "bad" in r else "")


def describe(e):
    if e.get("k") == "cas":
        return "cas by %d at %d ok=%s: %s => %s" % (e["i"], e["now"], e["ok"], _short_ring(e["in"]), _short_ring(e["out"]))
    return " ".join("%s=%s" % (k, json.dumps(v) if isinstance(v, (dict, list)) else v) for k, v in sorted(e.items()))


def signature(trace_events, k, violated):
    """Class of the rejected input: kind of event, kind of writer, published state of the writer before/after."""
    e = trace_events[k]
    kinds = {}
    for x in trace_events[:k + 1]:
        if x.get("k") == "start":
            kinds[x["i"]] = x["cfg"]["kind"]
    sig = "lifecycler:%s" % e.get("k")
    i = e.get("i")
    if i is not None:
        sig += " writer=%s" % kinds.get(i, "?")
    if e.get("k") == "cas":
        a, b = e["in"]["e"][i - 1], e["out"]["e"][i - 1]
        sig += " %s->%s" % (a["st"], b["st"])
        foreign = [j + 1 for j in range(len(e["in"]["e"])) if j != i - 1 and e["in"]["e"][j] != e["out"]["e"][j]]
        if foreign:
            sig += " foreign-entries-changed"
        if b["st"] != "ABSENT" and a["st"] != "ABSENT":
            if b["ts"] < a["ts"]:
                sig += " ts-backwards"
            if b["ts"] != e["now"] and e["ok"]:
                sig += " ts-not-now"
            if b["reg"] != a["reg"]:
                sig += " reg-changed"
            if len(b["toks"]) != len(a["toks"]):
                sig += " tokens%+d" % (len(b["toks"]) - len(a["toks"]))
    elif e.get("k") in ("ret", "ready", "sample", "crash", "settled", "term"):
        sig += " " + " ".join("%s=%s" % (f, e[f]) for f in ("res", "st", "fstate", "at") if f in e)
    if violated:
        sig += " violates=" + violated
    return sig


def validate_file(ctx, path, nt, timeout):
    """Run LifecyclerTrace on one concatenated trace file. Returns list of rejections
    [(label, index_in_trace, event, violated_property_or_None, trace_events)]; accepted traces are counted."""
    rejections = []
    traces = split_traces(path)
    remaining = traces
    for _round in range(4):
        if not remaining:
            break
        p = ctx.path("val_nt%d_%d.ndjson" % (nt, _round))
        with open(p, "w") as f:
            for _label, _n, evs in remaining:
                for e in evs:
                    f.write(json.dumps(e) + "\n")
        r = ctx.tlc(FAMILY, "LifecyclerTrace", cfg="LifecyclerTrace.cfg", workers=1, timeout=timeout, deadlock=False,
                    subst={"@@NT@@": nt}, extra_files={p: "trace.ndjson"}, count=False)
        if r.timed_out:
            raise verif.Inconclusive("trace validation timed out (%d traces)" % len(remaining))
        total = sum(len(t[2]) for t in remaining)
        hwm = None
        m = re.search(r'<<"HWM", (\d+), (\d+)>>', r.log)
        if m:
            hwm = int(m.group(1))
        violated = None
        if r.violated and r.violated != "Postcondition":
            violated = r.violated
            idxs = re.findall(r"idx = (\d+)", "".join(r.trace[-2:]))
            if idxs:
                # the violating step consumed event idx (1-based) = last idx value
                hwm = int(idxs[-1]) - 1
        if r.ok:
            ctx.traces += len(remaining)
            ctx.states += r.distinct
            ctx.transitions += r.generated
            break
        if hwm is None:
            raise verif.Inconclusive("trace validation failed without a verdict: %s" % (r.error or r.log[-600:]))
        # locate the trace that contains event hwm+1 (1-based) of the file
        pos = 0
        for ti, (label, _n, evs) in enumerate(remaining):
            if hwm < pos + len(evs):
                k = hwm - pos
                rejections.append((label, k, evs[k], violated, evs))
                ctx.traces += ti          # the ones before were accepted
                remaining = remaining[ti + 1:]
                break
            pos += len(evs)
        else:
            raise verif.Inconclusive("high-water mark %d beyond %d events" % (hwm, total))
    return rejections


def corrupt(path, how):
    """Development self-test of the binding: damage one logged field / drop one event of the 2nd trace."""
    lines = open(path).read().splitlines()
    resets = [n for n, l in enumerate(lines) if '"k":"reset"' in l]
    lo = resets[1] if len(resets) > 1 else 0
    hi = resets[2] if len(resets) > 2 else len(lines)
    for n in range(lo, hi):
        e = json.loads(lines[n])
        if how == "corrupt-ts" and e.get("k") == "cas" and e.get("ok") and e["out"]["e"][e["i"] - 1]["st"] != "ABSENT":
            e["out"]["e"][e["i"] - 1]["ts"] += 1
            lines[n] = json.dumps(e)
            break
        if how == "drop-event" and e.get("k") == "cas" and e.get("ok") and n > lo + 3:
            del lines[n]
            break
        if how == "corrupt-sample" and e.get("k") == "sample":
            e["st"] = "LEAVING" if e["st"] != "LEAVING" else "ACTIVE"
            lines[n] = json.dumps(e)
            break
    else:
        raise verif.Inconclusive("selftest: nothing to corrupt")
    open(path, "w").write("\n".join(lines) + "\n")


def record_and_validate(ctx, test, env, timeout_go=900, timeout_tlc=900, label=""):
    """Record traces from the real code, validate them; a rejection is re-recorded once (same seed):
    only a rejection that repeats is a disagreement (DESIGN 1.4)."""
    def record(tag):
        d = ctx.path("traces_%s_%s" % (test, tag), "x")
        d = os.path.dirname(d)
        e = dict(env)
        e["VERIF_TRACE_DIR"] = d
        res = ctx.run_harness("c08", "^%s$" % test, env=e, timeout=timeout_go)
        if res.get("fatal"):
            raise verif.Inconclusive("harness reported: %s" % res["fatal"])
        files = {}
        for fn in sorted(os.listdir(d)):
            m = re.fullmatch(r"trace_nt(\d+)\.ndjson", fn)
            if m:
                files[int(m.group(1))] = os.path.join(d, fn)
        if not files:
            raise verif.Inconclusive("harness recorded no traces")
        return res, files

    res, files = record("a")
    cases = int(res.get("cases", 0))
    selftest = os.environ.get("VERIF_LC_SELFTEST")   # development: corrupt-ts | drop-event | corrupt-sample
    if selftest:
        nt = sorted(files)[-1] if 2 not in files else 2
        corrupt(files[nt], selftest)
        rej = validate_file(ctx, files[nt], nt, timeout_tlc)
        ctx.inconclusive_note("SELFTEST %s: %s" % (selftest, "rejected as expected: " + signature(rej[0][4], rej[0][1], rej[0][3])
                                                    if rej else "NOT rejected - the binding is broken"))
        return
    rej = []
    before = ctx.traces
    for nt, p in files.items():
        rej += validate_file(ctx, p, nt, timeout_tlc)
    res["cases"] = 0           # traces are counted by validate_file (accepted ones only)
    ctx.absorb(res, label)
    ctx.evaluations += cases
    ctx.extra["traces_recorded"] = ctx.extra.get("traces_recorded", 0) + cases
    if not rej:
        if ctx.traces - before != cases:
            raise verif.Inconclusive("validated %d of %d recorded traces" % (ctx.traces - before, cases))
        return
    # triage: record again with the same seed; the same trace must be rejected again
    _res2, files2 = record("b")
    again = {}
    for nt, p in files2.items():
        want = {r[0] for r in rej}
        sub = [t for t in split_traces(p) if t[0] in want]
        if not sub:
            continue
        q = ctx.path("triage_nt%d.ndjson" % nt)
        with open(q, "w") as f:
            for _l, _n, evs in sub:
                for e in evs:
                    f.write(json.dumps(e) + "\n")
        for r in validate_file(ctx, q, nt, timeout_tlc):
            again[r[0]] = r
    for (lab, k, e, violated, evs) in rej:
        if lab not in again:
            ctx.inconclusive_note("trace %s was rejected once but accepted when re-recorded with the same seed" % lab)
            continue
        lab2, k2, e2, violated2, evs2 = again[lab]
        ctx.disagreement({
            "sig": signature(evs2, k2, violated2),
            "case": {"trace": lab, "event_index": k2, "prefix": [describe(x) for x in evs2[max(0, k2 - 12):k2]]},
            "got": describe(e2),
            "want": "an enabled step of the specification (spec/lifecycler) for this event" +
                    (" satisfying %s" % violated2 if violated2 else ""),
            "note": "recorded by harness/c08 %s; rejected by LifecyclerTrace.tla (first rejection: %s)" % (test, describe(e)),
        }, label)
