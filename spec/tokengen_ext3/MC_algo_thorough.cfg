CONSTANTS
  HiCard = 2
  LoCard = 3
  MaxReq = 4
SPECIFICATION Spec
INVARIANTS TypeOK LoopInv Returned OnlyWithEnoughFree
PROPERTIES Terminates
CHECK_DEADLOCK TRUE
